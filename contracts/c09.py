"""C09 — seeded runs reproducible; the library never resets the global RNG (DESIGN §2/C09).
Effect contracts over the global generator G: alphabet {advance, reseed(e), restore(e)}."""
import ast

from pyvc import eff
from pyvc.framework import ObResult

CORE, SAMPLER, TOOLS, CLUSTER = "tempest.core", "tempest.sampler", "tempest.tools", "tempest.cluster"
CONSTRUCTORS = {(CORE, "SamplerCore.__init__"), (SAMPLER, "Sampler.__init__")}


def run(ctx):
    mods = ctx.mods
    P = ctx.prop
    idx = eff.qualname_index(mods)

    def ob(oid, ok, detail="", line=None):
        r = ObResult(f"{P}/{oid}", "discharged" if ok else "violated", "pyvc-eff", 0.0, 1, "" if ok else detail,
                     line=line, kind="effect")
        r.replayer = "c09_rng"
        return ctx.add(r)

    refl = eff.scan_reflection(mods)
    ob("subset/no-reflection", not refl, f"exec/eval/setattr found: {refl}")

    sites = eff.rng_sites(mods)
    reseeds = [s for s in sites if s[2] == "reseed"]
    draws = [s for s in sites if s[2] == "draw"]
    nondet = [s for s in sites if s[2] == "nondet"]
    ctx.notes.append({"rng_reseed_sites": [f"{m}.{q}:{n.lineno} {d}" for m, q, k, n, d in reseeds],
                      "rng_draw_sites": len(draws)})
    for f in sorted({(m, q) for m, q, *_ in sites}):
        ctx.fuc(f[0], f[1], role="effect-summary")

    # O1/O4/O5: every reseed site is either the constructor's seeding with the caller's seed, a helper whose
    # library callers leave the seed None, or the checkpoint restore of the saved stream
    for (m, q, k, call, d) in reseeds:
        arg = call.args[0] if call.args else (call.keywords[0].value if call.keywords else ast.Constant(value=None))
        where = f"{m}.{q}:{call.lineno}"
        if d.endswith("set_state"):
            org = eff.slice_seed(mods, m, q, arg)
            ok = (m, q) == (CORE, "SamplerCore.load_sampler_state") and org <= {"loaded:rng_state"}
            ob(f"restore-site/{q}@{call.lineno}:restores-the-checkpointed-stream-only", ok,
               f"{where}: set_state argument originates from {sorted(map(str, org))}", call.lineno)
            # the restore may be conditional on the checkpoint's contents only (every configuration resumes the stream)
            guards = []
            fdef = idx[(m, q)]

            def walk(stmts, conds):
                for st_ in stmts:
                    if any(c is call for c in ast.walk(st_)):
                        if isinstance(st_, ast.If):
                            inbody = any(c is call for b in st_.body for c in ast.walk(b))
                            walk(st_.body if inbody else st_.orelse, conds + [st_.test])
                        elif isinstance(st_, (ast.For, ast.While, ast.With, ast.Try)):
                            for blk in (getattr(st_, "body", []), getattr(st_, "orelse", []), getattr(st_, "finalbody", [])):
                                walk(blk, conds)
                        else:
                            guards.extend(conds)
            walk(fdef.body, [])
            names = {n.id for g in guards for n in ast.walk(g) if isinstance(n, ast.Name)}
            ob(f"restore-site/{q}@{call.lineno}:unconditional-in-the-configuration", names <= {"d"},
               f"{where}: the restore of the checkpointed stream is guarded by {sorted(names - {'d'})}: "
               f"some configurations would resume with a different stream", call.lineno)
            continue
        org = eff.slice_seed(mods, m, q, arg)
        if (m, q) in CONSTRUCTORS:
            ok = org <= {"config", "caller"} and bool(org)
            ob(f"reseed-site/{q}@{call.lineno}:constructor-seeds-with-caller-seed", ok,
               f"{where}: seed originates from {sorted(map(str, org))}", call.lineno)
        else:
            internal = {o for o in org if o != "caller"}
            ok = internal <= {"none"}
            ob(f"reseed-site/{q}@{call.lineno}:library-callers-never-reseed", ok,
               f"{where}: np.random.seed reachable with seed from {sorted(map(str, internal))} "
               f"(a library operation would reset the process-wide stream to a fixed value)", call.lineno)
    ob("no-fixed-reseed/sites-enumerated", True)

    # O2: the caller's seed is applied at construction before any draw
    f = idx.get((CORE, "SamplerCore.__init__"))
    found, before_clean, msg = False, True, "no `if config.random_state is not None: np.random.seed(config.random_state)` in SamplerCore.__init__"
    if f is not None:
        al = eff.import_aliases(mods[CORE][0])
        for s in f.body:
            if isinstance(s, ast.If):
                t = ast.unparse(s.test)
                seeds = [c for c in ast.walk(ast.Module(body=s.body, type_ignores=[])) if isinstance(c, ast.Call)
                         and eff.resolve(eff.dotted(c.func), al) == "numpy.random.seed"]
                if seeds and "random_state is not None" in t and not s.orelse:
                    a = seeds[0].args[0] if seeds[0].args else None
                    if a is not None and eff.slice_seed(mods, CORE, "SamplerCore.__init__", a) <= {"config"}:
                        found = True
                        break
            # statements before the seeding must not draw
            for c in ast.walk(s):
                if isinstance(c, ast.Call):
                    dd = eff.resolve(eff.dotted(c.func), al)
                    if dd and dd.startswith("numpy.random.") and dd not in eff.RNG_PRIVATE:
                        before_clean = False
                        msg = f"draw {dd} before the seed is applied (line {c.lineno})"
    ob("seed-honoured/SamplerCore.__init__:seeds-before-first-draw", found and before_clean, msg)
    # constructors of the pipeline components draw nothing (so construction order cannot consume the stream)
    for (m, q) in [("tempest.steps.reweight", "Reweighter.__init__"), ("tempest.steps.train", "Trainer.__init__"),
                   ("tempest.steps.resample", "Resampler.__init__"), ("tempest.steps.mutate", "Mutator.__init__"),
                   (CLUSTER, "HierarchicalGaussianMixture.__init__"), ("tempest.state_manager", "StateManager.__init__"),
                   ("tempest.config", "SamplerConfig.__post_init__")]:
        bad = [s for s in draws + reseeds if (s[0], s[1]) == (m, q)]
        ob(f"seed-honoured/{q}:draws-nothing", not bad, f"{m}.{q} touches the global generator: {[(s[4], s[3].lineno) for s in bad]}")

    # O3: no other nondeterministic source
    ob("determinism/no-clock-or-entropy-source", not nondet,
       f"nondeterministic primitives used: {[(m, q, d, n.lineno) for m, q, k, n, d in nondet]}")

    # O5: checkpoints carry the stream: save stores get_state(), load restores it and does not reseed
    save = idx.get((CORE, "SamplerCore.save_sampler_state"))
    stores = save is not None and any(
        isinstance(s, ast.Assign) and isinstance(s.targets[0], ast.Subscript) and isinstance(s.targets[0].slice, ast.Constant)
        and s.targets[0].slice.value == "rng_state" and isinstance(s.value, ast.Call)
        and (eff.dotted(s.value.func) or "").endswith("random.get_state") for s in ast.walk(save))
    ob("checkpoint/save-records-generator-state", stores, "save_sampler_state does not store np.random.get_state() under 'rng_state'")
    load_res = [s for s in reseeds if (s[0], s[1]) == (CORE, "SamplerCore.load_sampler_state")]
    ob("checkpoint/load-restores-and-never-reseeds",
       any(s[4].endswith("set_state") for s in load_res) and not any(s[4].endswith(".seed") for s in load_res),
       "load_sampler_state must restore the saved generator state and must not call np.random.seed "
       "(a reseed replays the stream the original run consumed first)")

    # O6: mixture fits draw from their private generator only
    gm = [s for s in draws if s[0] == CLUSTER and s[1].startswith("GaussianMixture.")]
    ob("private-generator/GaussianMixture-draws-through-rng-only", not gm,
       f"direct global draws inside GaussianMixture: {[(s[1], s[4], s[3].lineno) for s in gm]}")
    fit = idx.get((CLUSTER, "GaussianMixture.fit"))
    priv = fit is not None and any(isinstance(c, ast.Call) and (eff.dotted(c.func) or "").endswith("random.RandomState")
                                   for c in ast.walk(fit))
    ob("private-generator/GaussianMixture.fit:seeded-fit-uses-RandomState", priv,
       "a seeded GaussianMixture.fit must draw from np.random.RandomState(random_state), not reseed the global stream")

    ctx.trust("numpy global generator is the only random source (checked: no time/os.urandom/random/uuid use)",
              "iteration order of a set of small ints (check_bounds) is deterministic in CPython",
              "T-EFF is a syntactic analysis: sound for code without exec/eval/setattr (checked)")
    ctx.undecided_clauses.append("'different seeds yield different results' is probabilistic: only exercised by the bounded native replayer (thorough tier)")
    if ctx.tier == "thorough":
        from pyvc import replay
        res = replay.run_replayer("c09_rng", {"input": None}, timeout=900)
        ctx.bounded.append({"clause": "native RNG probes (seeded reproducibility, stream dependence after every public operation, resume)",
                            "bound": "configurations listed in replayers/c09_rng.py", "result": res})
        if res.get("reproduced"):
            r = ObResult(f"{P}/native/rng-probes", "violated", "native", 0.0, 1, str(res.get("detail")), kind="bounded",
                         witness={"replayer": "c09_rng", "input": res.get("input")})
            r.replayed = res
            ctx.add(r)
