"""C14 — cluster labels and proposal modes stay coherent for every history and cadence (DESIGN §2/C14).

Typestate ghost: fitted(clusterer) <=> clusterer.n_clusters_ >= 1 (INV-FIT; established by __init__ with 0 and by fit).
Abstract facts carried between the steps: K_c = clusterer.n_clusters_, K_m = mode_stats.K, label ranges.

O1  HierarchicalGaussianMixture.__init__ : n_clusters_ == 0, not fitted, no normalisation bounds.
O2  Trainer.run (all three arms, every iter / cluster_every / beta): predict only on a fitted model; the returned
    statistics have K_m == K_c (clustering, beta>0) resp. K_m == 1; the clusterer is fitted afterwards.
O3  Resampler.run: predict only on a fitted model (precondition discharged at the call site in execute_iteration);
    assignments have n_particles entries in [0, K_c) (clustering) resp. all 0.
O4  SamplerCore.execute_iteration: steps run in the order reweight, train, resample, mutate on the same clusterer;
    at the call of Mutator.run every assignment indexes an existing mode (kernel precondition).
O5  ModeStatistics.from_particles: one mode per label in label order (K_m == n_modes), mode l fitted from rows whose
    label is l (or from all rows when at most n_dim rows carry l), every fit gets a normalised resampling
    distribution; ModeStatistics.__init__ shape checks pass; non-finite dof replaced by the fallback.
O6  resume: a freshly constructed sampler has an unfitted clusterer (O1) and Trainer.run refits it before any
    predict whatever the restored iteration number is (O2 with n_clusters_ == 0).
"""
import ast
import z3

from pyvc.interp import LoopSpec
from pyvc.values import Ref, Arr, Opaque, Unsupported, PyRaise, to_z3, fresh_scalar, fresh_arr, fresh_name, is_conc
from pyvc import npmodel, symlist, eff
from pyvc.framework import ObResult
from .common import *  # noqa

TRAIN, RES, MODES, CLUSTER, CORE = "tempest.steps.train", "tempest.steps.resample", "tempest.modes", "tempest.cluster", "tempest.core"
HGM = "HierarchicalGaussianMixture"


# ------------------------------------------------------------------------------------------ abstract clusterer
def new_clusterer(st, K0=None):
    K0 = K0 if K0 is not None else fresh_scalar("int", "K_c0")
    st.assume(K0 >= 0)
    return st.new_obj(HGM, __module__="abstract", n_clusters_=K0)


def h_fit(I, st, args, kw, node):
    """Contract of HierarchicalGaussianMixture.fit (proved under C15): requires >= 1 training row and one weight per
    row; afterwards the model is fitted with K >= 1 clusters (modifies the clusterer only)."""
    c, X = args[0], st.arr(args[1])
    w = st.arr(args[2] if len(args) > 2 else kw.get("sample_weight"))
    I.oblige(f"call:clusterer.fit:rows-and-weights@{node.lineno}", st,
             z3.And(to_z3(X.shape[0], "int") >= 1, to_z3(w.shape[0], "int") == to_z3(X.shape[0], "int")), node)
    K = fresh_scalar("int", "K_fit")
    st.assume(K >= 1)
    st.cell(c)["n_clusters_"] = K
    st.ghost["fits"] = st.ghost.get("fits", 0) + 1
    st.cell(c)["__version__"] = st.cell(c).get("__version__", 0) + 1
    return c


ROW = z3.ArraySort(z3.IntSort(), z3.RealSort())
PRED = z3.Function("predicted_label", z3.IntSort(), ROW, z3.IntSort())      # (model version, row) -> label: predict is row-wise


def row_of(X, q):
    c = z3.Int("c!row")
    return z3.Lambda([c], to_z3(X.at(q, c), "real"))


def model_version(st, c):
    return st.cell(c).get("__version__", 0)


def h_predict(I, st, args, kw, node):
    """Contract of predict (C15/O6): requires a fitted model; row-wise: label q depends on the model and on row q only;
    labels in [0, K_c)."""
    c, X = args[0], st.arr(args[1])
    K = to_z3(st.cell(c)["n_clusters_"], "int")
    I.oblige(f"call:clusterer.predict:requires-fitted@{node.lineno}", st, K >= 1, node,
             note="predict on a model that was never fitted (no clusters, no normalisation bounds)")
    ver = model_version(st, c)
    row = z3.Const(fresh_name("row"), ROW)
    st.assume(z3.ForAll([row], z3.And(PRED(ver, row) >= 0, PRED(ver, row) < K), patterns=[PRED(ver, row)]))
    if X.ndim != 2:
        raise Unsupported("predict on a non-2d array")
    lab = Arr((X.shape[0],), lambda q: PRED(ver, row_of(X, q)), "int")
    return st.new_arr(lab)


def clusterer_ext():
    return {("method", HGM, "fit"): h_fit, ("method", HGM, "predict"): h_predict}


def new_modes(st, K, **gh):
    return st.new_obj("ModeStatistics", __module__="abstract", K=K, **gh)


# ------------------------------------------------------------------------------------------ O1
def clusterer_init(ctx):
    def setup(I, st):
        obj = st.new_obj(HGM, __module__=CLUSTER)
        info["obj"] = obj
        return dict(self_val=obj, kwargs=dict(n_init=1, max_iterations=fresh_scalar("int", "max_iterations"), min_points=None,
                                              threshold_modifier=info["tm"](st), covariance_type="full", verbose=False,
                                              normalize=fresh_scalar("bool", "normalize")))

    def post(I, o, pre):
        c = o.state.cell(info["obj"])
        nc = c.get("n_clusters_", "missing")
        return [("unfitted-model-has-zero-clusters", (nc == 0) if is_conc(nc) else to_z3(nc, "int") == 0),
                ("unfitted-model-has-no-normalisation-bounds", c.get("_data_min", 0) is None and c.get("_data_max", 0) is None),
                ("unfitted-model-is-not-gmm-ready", c.get("_gmm_ready", None) is False)]
    info = {}

    def tm_pos(st):
        t = fresh_scalar("real", "threshold_modifier")
        st.assume(t > 0)
        return t
    info["tm"] = tm_pos
    ctx.verify("", CLUSTER, f"{HGM}.__init__", setup, post, registry={}, allowed_raises=(), replayer="c14_modes")


# ------------------------------------------------------------------------------------------ O2
def trainer(ctx, clustering):
    info = {}

    def h_trim(I, st, args, kw, node):
        """Contract of tools.trim_weights (C20/O3,O4): samples[mask] and the renormalised weights of the same mask;
        the mask keeps at least one sample (the heaviest)."""
        smp, w = st.arr(args[0]), st.arr(args[1])
        n = to_z3(w.shape[0], "int")
        I.oblige(f"call:trim_weights:one-weight-per-sample@{node.lineno}", st, to_z3(smp.shape[0], "int") == n, node)
        m = fresh_scalar("int", "m_trim")
        st.assume(z3.And(m >= 1, m <= n))
        sel = fresh_arr((m,), "int", "trim_sel")
        q = z3.Int(fresh_name("q"))
        st.assume(z3.ForAll([q], z3.Implies(z3.And(q >= 0, q < m), z3.And(sel.at(q) >= 0, sel.at(q) < n)), patterns=[sel.at(q)]))
        idx = Arr((m,), lambda k: smp.at(sel.at(k)), smp.sort)
        wt = fresh_arr((m,), "real", "w_trim")
        st.ghost["trim_idx"] = idx
        st.ghost["w_trim"] = wt
        st.ghost["w_in"] = w
        st.ghost["trim_sel"] = sel
        return (st.new_arr(idx), st.new_arr(wt))

    def h_get_history(I, st, args, kw, node):
        sm, key = args[0], args[1]
        H = dict(st.ghost.get("H", {}))
        if key not in H:
            H[key] = fresh_arr((st.cell(sm)["__N__"], st.cell(sm)["n_dim"]), "real", "H" + key)
            st.ghost["H"] = H
        return st.new_arr(Arr(H[key].shape, H[key].fn, "real", prov=("copy", H[key])))

    def training_rows(I, st, X, what, node):
        """the clustering model and the mode fits work on the unit-cube coordinates of the trimmed training pool"""
        Hu = st.ghost.get("H", {}).get("u")
        idx = st.ghost.get("trim_idx")
        if Hu is None or idx is None:
            I.oblige(f"{what}:unit-cube-rows-of-the-trimmed-pool@{node.lineno}", st, False, node,
                     note="the u-history was not read / weights were not trimmed before this call")
            return
        q, c = z3.Int(fresh_name("q")), z3.Int(fresh_name("c"))
        m = to_z3(idx.shape[0], "int")
        I.oblige(f"{what}:unit-cube-rows-of-the-trimmed-pool@{node.lineno}", st,
                 z3.And(to_z3(X.shape[0], "int") == m, to_z3(X.shape[1], "int") == to_z3(Hu.shape[1], "int"),
                        z3.ForAll([q, c], z3.Implies(z3.And(q >= 0, q < m, c >= 0, c < to_z3(Hu.shape[1], "int")),
                                                     X.at(q, c) == Hu.at(idx.at(q), c)))), node)

    def h_from_particles(I, st, args, kw, node):
        """Contract of ModeStatistics.from_particles (O5 below)."""
        u, w, lab = st.arr(args[1]), st.arr(args[2]), st.arr(args[3])
        training_rows(I, st, u, "call:from_particles", node)
        wt = st.ghost.get("w_trim")
        q0 = z3.Int(fresh_name("q"))
        nn = to_z3(u.shape[0], "int")
        I.oblige(f"call:from_particles:trimmed-weights-of-the-same-rows@{node.lineno}", st,
                 False if wt is None else z3.And(to_z3(w.shape[0], "int") == to_z3(wt.shape[0], "int"), z3.Or(
                     z3.ForAll([q0], z3.Implies(z3.And(q0 >= 0, q0 < nn), w.at(q0) == wt.at(q0))),
                     # from_particles renormalises: the un-normalised weights of the same rows are as good
                     z3.ForAll([q0], z3.Implies(z3.And(q0 >= 0, q0 < nn), w.at(q0) == st.ghost["w_in"].at(st.ghost["trim_sel"].at(q0)))))), node)
        clus = st.cell(st.env["self"])["clusterer"]
        ver = model_version(st, clus)
        I.oblige(f"call:from_particles:labels-are-the-current-model's-predictions-for-these-rows@{node.lineno}", st,
                 z3.ForAll([q0], z3.Implies(z3.And(q0 >= 0, q0 < nn), lab.at(q0) == PRED(ver, row_of(u, q0)))), node)
        n_modes = kw.get("n_modes")
        n = to_z3(u.shape[0], "int")
        I.oblige(f"call:from_particles:compatible-shapes@{node.lineno}", st,
                 z3.And(to_z3(w.shape[0], "int") == n, to_z3(lab.shape[0], "int") == n, n >= 1), node)
        if n_modes is None:
            I.oblige(f"call:from_particles:number-of-labels-passed@{node.lineno}", st, False, node,
                     note="without n_modes the modes are indexed by the rank of a label among the labels that occur, "
                          "while the kernel indexes them by label")
            K = fresh_scalar("int", "K_unique")
            st.assume(K >= 1)
        else:
            K = to_z3(n_modes, "int")
            q = z3.Int(fresh_name("q"))
            I.oblige(f"call:from_particles:labels-below-n_modes@{node.lineno}", st,
                     z3.And(K >= 1, z3.ForAll([q], z3.Implies(z3.And(q >= 0, q < n), z3.And(lab.at(q) >= 0, lab.at(q) < K)))), node)
        st.ghost["from_particles"] = st.ghost.get("from_particles", []) + [(u, w, lab, K)]
        return new_modes(st, K, source="from_particles", u=u, labels=lab)

    def h_from_global(I, st, args, kw, node):
        u, w = st.arr(args[1]), st.arr(args[2])
        training_rows(I, st, u, "call:from_global", node)
        I.oblige(f"call:from_global:compatible-shapes@{node.lineno}", st,
                 z3.And(to_z3(w.shape[0], "int") == to_z3(u.shape[0], "int"), to_z3(u.shape[0], "int") >= 1), node)
        return new_modes(st, 1, source="from_global")

    def h_modes_new(I, st, args, kw, node):
        means = st.arr(kw["means"])
        cov = st.arr(kw["covariances"])
        dof = st.arr(kw["degrees_of_freedom"])
        I.oblige(f"call:ModeStatistics:shapes@{node.lineno}", st,
                 z3.And(to_z3(cov.shape[0], "int") == to_z3(means.shape[0], "int"), to_z3(dof.shape[0], "int") == to_z3(means.shape[0], "int")), node)
        return new_modes(st, means.shape[0], source="dummy")

    def np_eye(I, st, args, kw, node):
        n = args[0]
        return st.new_arr(Arr((n, n), lambda i, j: z3.If(to_z3(i, "int") == to_z3(j, "int"), z3.RealVal(1), z3.RealVal(0)), "real"))

    reg = state_registry()
    reg[(SM, "StateManager.get_history")] = h_get_history
    reg[("tempest.tools", "trim_weights")] = h_trim
    reg[(MODES, "ModeStatistics.__new__")] = h_modes_new
    ex = clusterer_ext()

    def h_fit_t(I, st, args, kw, node):
        training_rows(I, st, st.arr(args[1]), "call:clusterer.fit", node)
        return h_fit(I, st, args, kw, node)

    def h_predict_t(I, st, args, kw, node):
        return h_predict(I, st, args, kw, node)
    ex[("method", HGM, "fit")] = h_fit_t
    ex[("method", HGM, "predict")] = h_predict_t
    ex[("method", "tuple", "from_particles")] = h_from_particles
    ex[("method", "tuple", "from_global")] = h_from_global
    ex["numpy.eye"] = np_eye

    def setup(I, st):
        beta = fresh_scalar("real", "beta")
        it = fresh_scalar("int", "iter")
        ce = fresh_scalar("int", "cluster_every")
        st.assume(z3.And(beta >= 0, beta <= 1, it >= 0, ce >= 1))
        sm = make_state_manager(st, {"beta": beta, "iter": it})
        N = st.cell(sm)["__N__"]
        st.assume(z3.And(st.cell(sm)["__T__"] >= 1, st.cell(sm)["n_dim"] >= 1))
        clus = new_clusterer(st) if clustering else None
        tr = st.new_obj("Trainer", __module__=TRAIN, state=sm, pbar=None, clusterer=clus, cluster_every=ce, clustering=clustering,
                        TRIM_ESS=z3.RealVal("0.99"), TRIM_BINS=1000, DOF_FALLBACK=z3.RealVal(1000000))
        w = fresh_arr((N,), "real", "weights")
        info.update(beta=beta, it=it, ce=ce, clus=clus, sm=sm)
        return dict(self_val=tr, args=[st.new_arr(w)])

    def post(I, o, pre):
        st = o.state
        ms = o.value
        beta = info["beta"]
        if not (isinstance(ms, Ref) and ms.kind == "obj" and st.cls(ms) == "ModeStatistics"):
            return [("returns-mode-statistics", False)]
        K = to_z3(st.cell(ms)["K"], "int")
        g = [("returns-mode-statistics", True), ("at-least-one-mode", K >= 1)]
        if clustering:
            Kc = to_z3(st.cell(info["clus"])["n_clusters_"], "int")
            g.append(("annealing:model-is-fitted-afterwards", z3.Implies(beta > 0, Kc >= 1)))
            g.append(("annealing:one-mode-per-cluster-label", z3.Implies(beta > 0, K == Kc)))
            g.append(("warm-up:single-dummy-mode", z3.Implies(beta == 0, K == 1)))
        else:
            g.append(("no-clustering:single-global-mode", K == 1))
        return g

    ctx.verify("clustering" if clustering else "no-clustering", TRAIN, "Trainer.run", setup, post, registry=reg, extras=ex,
               replayer="c14_modes")


# ------------------------------------------------------------------------------------------ O3
def resampler(ctx, scheme, clustering):
    from .c06 import SQRTEPS
    from pyvc.theories import sums
    info = {}

    def h_choice(I, st, args, kw, node):
        a = st.arr(args[0])
        size = kw["size"]
        pick = fresh_arr((size,), "int", "pick")
        q = z3.Int(fresh_name("q"))
        st.assume(z3.ForAll([q], z3.Implies(z3.And(q >= 0, q < to_z3(size, "int")),
                                            z3.And(pick.at(q) >= 0, pick.at(q) < to_z3(a.shape[0], "int"))), patterns=[pick.at(q)]))
        return st.new_arr(Arr((size,), lambda k: a.at(pick.at(k)), "int"))

    def h_syst(I, st, args, kw, node):
        size = args[0]
        w = st.arr(kw.get("weights", args[1] if len(args) > 1 else None))
        idx = fresh_arr((size,), "int", "sidx")
        q = z3.Int(fresh_name("q"))
        st.assume(z3.ForAll([q], z3.Implies(z3.And(q >= 0, q < to_z3(size, "int")),
                                            z3.And(idx.at(q) >= 0, idx.at(q) < to_z3(w.shape[0], "int"))), patterns=[idx.at(q)]))
        return st.new_arr(idx)

    def h_get_history(I, st, args, kw, node):
        sm, key = args[0], args[1]
        N, d = st.cell(sm)["__N__"], st.cell(sm)["n_dim"]
        if key in ("u", "x"):
            return st.new_arr(fresh_arr((N, d), "real", "H" + key))
        return st.new_arr(fresh_arr((N,), "real", "H" + key))

    reg = state_registry()
    reg[(SM, "StateManager.get_history")] = h_get_history
    reg[(TOOLS, "systematic_resample")] = h_syst
    ex = clusterer_ext()
    ex["numpy.random.choice"] = h_choice

    def setup(I, st):
        n = fresh_scalar("int", "n_particles")
        st.assume(n >= 1)
        beta = fresh_scalar("real", "beta")
        st.assume(z3.And(beta >= 0, beta <= 1))
        sm = make_state_manager(st, {"beta": beta})
        N = st.cell(sm)["__N__"]
        st.assume(z3.And(st.cell(sm)["__T__"] >= 1, st.cell(sm)["n_dim"] >= 1))
        w = fresh_arr((N,), "real", "weights")
        clus = new_clusterer(st) if clustering else None
        if clustering:
            # precondition of Resampler.run (discharged at its call site in execute_iteration, O4):
            st.assume(z3.Implies(beta > 0, to_z3(st.cell(clus)["n_clusters_"], "int") >= 1))
        rs = st.new_obj("Resampler", __module__=RES, state=sm, n_particles=n, resample=scheme, clusterer=clus,
                        clustering=clustering, have_blobs=False)
        info.update(n=n, sm=sm, clus=clus, beta=beta)
        return dict(self_val=rs, args=[st.new_arr(w)])

    def post(I, o, pre):
        st = o.state
        a = current_of(st, info["sm"])["assignments"]
        if not (isinstance(a, Ref) and a.kind == "arr"):
            return [("assignments-stored", False)]
        A = st.arr(a)
        q = z3.Int(fresh_name("q"))
        n = info["n"]
        g = [("assignments-stored", True), ("one-assignment-per-particle", to_z3(A.shape[0], "int") == n)]
        rng = z3.And(q >= 0, q < n)
        if clustering:
            Kc = to_z3(st.cell(info["clus"])["n_clusters_"], "int")
            g.append(("annealing:assignments-are-cluster-labels-below-K_c",
                      z3.Implies(info["beta"] > 0, z3.ForAll([q], z3.Implies(rng, z3.And(A.at(q) >= 0, A.at(q) < Kc))))))
            g.append(("clusterer-not-modified", st.cell(info["clus"])["n_clusters_"] is pre.cell(info["clus"])["n_clusters_"]))
        else:
            g.append(("no-clustering:all-assignments-zero", z3.ForAll([q], z3.Implies(rng, A.at(q) == 0))))
        g.append(("warm-up:all-assignments-zero", z3.Implies(info["beta"] == 0, z3.ForAll([q], z3.Implies(rng, A.at(q) == 0)))))
        return g

    ctx.verify(f"{scheme}:{'clustering' if clustering else 'no-clustering'}", RES, "Resampler.run", setup, post, registry=reg,
               extras=ex, replayer="c14_modes")


# ------------------------------------------------------------------------------------------ O4
def iteration(ctx, clustering):
    """execute_iteration against the contracts of the four steps (proved above / under C05)."""
    info = {}

    def h_reweight(I, st, args, kw, node):
        rw = args[0]
        sm = st.cell(rw)["state"]
        beta = fresh_scalar("real", "beta_new")
        st.assume(z3.And(beta >= 0, beta <= 1))                # C05
        current_of(st, sm)["beta"] = beta
        current_of(st, sm)["iter"] = to_z3(current_of(st, sm)["iter"], "int") + 1
        st.ghost["order"] = st.ghost.get("order", []) + ["reweight"]
        info["beta"] = beta
        return st.new_arr(fresh_arr((st.cell(sm)["__N__"],), "real", "weights"))

    def h_train(I, st, args, kw, node):
        tr = args[0]
        sm = st.cell(tr)["state"]
        beta = to_z3(current_of(st, sm)["beta"], "real")
        st.ghost["order"] = st.ghost.get("order", []) + ["train"]
        clus = st.cell(tr)["clusterer"]
        K = fresh_scalar("int", "K_m")
        st.assume(K >= 1)
        if st.cell(tr)["clustering"]:
            Kc = fresh_scalar("int", "K_c")
            st.assume(Kc >= 0)
            old = to_z3(st.cell(clus)["n_clusters_"], "int")
            st.assume(z3.Implies(beta == 0, Kc == old))         # warm-up arm does not touch the clusterer
            st.cell(clus)["n_clusters_"] = Kc
            st.assume(z3.Implies(beta > 0, z3.And(Kc >= 1, K == Kc)))     # Trainer.run postconditions (O2)
            st.assume(z3.Implies(beta == 0, K == 1))
        else:
            st.assume(K == 1)
        return new_modes(st, K)

    def h_resample(I, st, args, kw, node):
        rs = args[0]
        sm = st.cell(rs)["state"]
        beta = to_z3(current_of(st, sm)["beta"], "real")
        st.ghost["order"] = st.ghost.get("order", []) + ["resample"]
        n = st.cell(rs)["n_particles"]
        A = fresh_arr((n,), "int", "assignments")
        q = z3.Int(fresh_name("q"))
        rng = z3.And(q >= 0, q < to_z3(n, "int"))
        if st.cell(rs)["clustering"]:
            clus = st.cell(rs)["clusterer"]
            Kc = to_z3(st.cell(clus)["n_clusters_"], "int")
            I.oblige(f"call:Resampler.run:requires-fitted-clusterer@{node.lineno}", st, z3.Implies(beta > 0, Kc >= 1), node)
            st.assume(z3.Implies(beta > 0, z3.ForAll([q], z3.Implies(rng, z3.And(A.at(q) >= 0, A.at(q) < Kc)), patterns=[A.at(q)])))
            st.assume(z3.Implies(beta == 0, z3.ForAll([q], z3.Implies(rng, A.at(q) == 0), patterns=[A.at(q)])))
        else:
            st.assume(z3.ForAll([q], z3.Implies(rng, A.at(q) == 0), patterns=[A.at(q)]))
        current_of(st, sm)["assignments"] = st.new_arr(A)
        return None

    def h_mutate(I, st, args, kw, node):
        mu, ms = args[0], args[1]
        sm = st.cell(mu)["state"]
        st.ghost["order"] = st.ghost.get("order", []) + ["mutate"]
        A = st.arr(current_of(st, sm)["assignments"])
        K = to_z3(st.cell(ms)["K"], "int")
        q = z3.Int(fresh_name("q"))
        I.oblige(f"call:Mutator.run:every-assignment-indexes-an-existing-mode@{node.lineno}", st,
                 z3.ForAll([q], z3.Implies(z3.And(q >= 0, q < to_z3(A.shape[0], "int")), z3.And(A.at(q) >= 0, A.at(q) < K))), node,
                 note="kernel precondition: means[assignments[k]], chol_covs[assignments[k]], ... must exist")
        return None

    def noop(I, st, args, kw, node):
        return None

    reg = state_registry()
    reg[(CORE, "SamplerCore._update_progress_bar")] = noop
    reg[(SM, "StateManager.commit_current_to_history")] = noop
    ex = {("method", "Reweighter", "run"): h_reweight, ("method", "Trainer", "run"): h_train,
          ("method", "Resampler", "run"): h_resample, ("method", "Mutator", "run"): h_mutate}

    def setup(I, st):
        n = fresh_scalar("int", "n_particles")
        st.assume(n >= 1)
        sm = make_state_manager(st, {"beta": fresh_scalar("real", "beta0"), "iter": fresh_scalar("int", "iter0")})
        clus = new_clusterer(st) if clustering else None
        mk = lambda cls, **kw: st.new_obj(cls, __module__="abstract", state=sm, **kw)
        core = st.new_obj("SamplerCore", __module__=CORE, state=sm, config=Opaque("config"),
                          reweighter=mk("Reweighter"), trainer=mk("Trainer", clusterer=clus, clustering=clustering),
                          resampler=mk("Resampler", clusterer=clus, clustering=clustering, n_particles=n),
                          mutator=mk("Mutator"), pbar=None)
        return dict(self_val=core, args=[None, 0])

    def post(I, o, pre):
        order = o.state.ghost.get("order", [])
        return [("steps-run-once-each-in-pipeline-order", order == ["reweight", "train", "resample", "mutate"])]

    ctx.verify("clustering" if clustering else "no-clustering", CORE, "SamplerCore.execute_iteration", setup, post, registry=reg,
               extras=ex, replayer="c14_modes")


# ------------------------------------------------------------------------------------------ O5
FINITE = z3.Function("dof_is_finite", z3.RealSort(), z3.BoolSort())
FITTED = z3.Function("is_fit_output", z3.RealSort(), z3.BoolSort())


def from_particles(ctx, with_n_modes):
    """The real ModeStatistics.from_particles (loop over the mode labels, three growing lists) + ModeStatistics.__init__."""
    from pyvc.theories import sums
    info = {}

    def h_where(I, st, args, kw, node):
        """np.where(mask) -> (indices of the True positions in increasing order,)  (L-MASK)"""
        if len(args) != 1:
            return npmodel.np_where(I, st, args, kw, node)
        X = st.arr(args[0])
        m, sel, inv = npmodel.mask_selection(I, st, X)
        r = st.new_arr(Arr((m,), lambda k: sel(to_z3(k, "int")), "int", prov=("where", X, sel, m)))
        return (r,)

    def h_choice(I, st, args, kw, node):
        """np.random.choice(n, size=m, replace=True, p=p): requires n >= 1, len(p) == n, p >= 0, sum p = 1; m indices in [0, n)."""
        npop = to_z3(args[0], "int")
        size, p = kw["size"], st.arr(kw["p"])
        q = z3.Int(fresh_name("q"))
        S = sums.total(st, p)
        I.oblige(f"call:np.random.choice:population-nonempty@{node.lineno}", st, npop >= 1, node)
        I.oblige(f"call:np.random.choice:p-is-a-distribution@{node.lineno}", st,
                 z3.And(to_z3(p.shape[0], "int") == npop,
                        z3.ForAll([q], z3.Implies(z3.And(q >= 0, q < npop), p.at(q) >= 0)), S == 1), node)
        pick = fresh_arr((size,), "int", "pick")
        st.assume(z3.ForAll([q], z3.Implies(z3.And(q >= 0, q < to_z3(size, "int")), z3.And(pick.at(q) >= 0, pick.at(q) < npop)),
                            patterns=[pick.at(q)]))
        return st.new_arr(pick)

    def h_fit(I, st, args, kw, node):
        """Contract of fit_mvstud (C19): for >= 1 rows returns (location (d,), scale (d,d), dof > 0 or +inf)."""
        X = st.arr(args[0])
        u, labels = info["u_arr"], info["lab"]
        label = I.frame_lookup(st, info["loop_var"])
        outside = label is None        # a fit outside the loop over the mode labels has no label of its own: an all-particle fit
        r, c = z3.Int(fresh_name("r")), z3.Int(fresh_name("c"))
        R, d = to_z3(X.shape[0], "int"), to_z3(X.shape[1], "int")
        I.oblige(f"call:fit_mvstud:at-least-one-row@{node.lineno}", st, R >= 1, node)
        # every row handed to the fit is a row of u that carries the current label (or any row, in the stated fallback)
        W = None
        pv = X.prov
        if pv is not None and pv[0] == "gather":
            inner, idx2 = pv[1], pv[2]
            if inner.prov is not None and inner.prov[0] == "gather" and inner.prov[1] is u:
                idx1 = inner.prov[2]
                W = lambda rr: idx1.at(idx2.at(rr))
            elif inner is u:
                W = lambda rr: idx2.at(rr)
        n_lab = st.ghost.get("n_with_label")
        fallback = z3.BoolVal(outside)
        if outside:
            label = z3.IntVal(-1)
        elif with_n_modes and n_lab is not None:
            fallback = to_z3(n_lab, "int") <= info["d"]
        N = to_z3(u.shape[0], "int")
        if W is not None:
            goal = z3.ForAll([r], z3.Implies(z3.And(r >= 0, r < R), z3.And(
                W(r) >= 0, W(r) < N, z3.ForAll([c], z3.Implies(z3.And(c >= 0, c < d), X.at(r, c) == u.at(W(r), c))),
                z3.Or(labels.at(W(r)) == to_z3(label, "int"), fallback))))
        else:
            i = z3.Int(fresh_name("i"))
            goal = z3.ForAll([r], z3.Implies(z3.And(r >= 0, r < R), z3.Exists([i], z3.And(
                i >= 0, i < N, z3.ForAll([c], z3.Implies(z3.And(c >= 0, c < d), X.at(r, c) == u.at(i, c))),
                z3.Or(labels.at(i) == to_z3(label, "int"), fallback)))))
        I.oblige(f"call:fit_mvstud:rows-are-particles-of-the-mode's-own-label@{node.lineno}", st, goal, node,
                 note="the mode built for a label must be fitted from the particles carrying that label "
                      "(from all particles only when at most n_dim particles carry it)")
        mean = fresh_arr((X.shape[1],), "real", "mean")
        cov = fresh_arr((X.shape[1], X.shape[1]), "real", "scale")
        dof = fresh_scalar("real", "dof")
        st.assume(z3.Implies(FINITE(dof), dof > 0))
        st.assume(FITTED(dof))
        return (st.new_arr(mean), st.new_arr(cov), dof)

    def h_isfinite(I, st, v, node):
        if npmodel.is_arr(v):
            raise Unsupported("isfinite of array")
        return FINITE(to_z3(v, "real"))

    def h_len(I, st, args, kw, node):
        r = npmodel.b_len(I, st, args, kw, node)
        if isinstance(args[0], Ref) and args[0].kind == "arr" and st.arr(args[0]).prov and st.arr(args[0]).prov[0] == "where":
            st.ghost["n_with_label"] = r
        return r

    def h_unique(I, st, args, kw, node):
        """np.unique(labels): the distinct values in increasing order (L-ENUM + sorted)."""
        A = st.arr(args[0])
        n = to_z3(A.shape[0], "int")
        m = fresh_scalar("int", "n_unique")
        U = z3.Function(fresh_name("uniq"), z3.IntSort(), z3.IntSort())
        pos = z3.Function(fresh_name("upos"), z3.IntSort(), z3.IntSort())
        wit = z3.Function(fresh_name("uwit"), z3.IntSort(), z3.IntSort())
        k, k2, i = z3.Int(fresh_name("k")), z3.Int(fresh_name("k2")), z3.Int(fresh_name("i"))
        st.assume(z3.And(m >= 0, m <= n, z3.Implies(n >= 1, m >= 1)))
        st.assume(z3.ForAll([k], z3.Implies(z3.And(k >= 0, k < m), z3.And(wit(k) >= 0, wit(k) < n, A.at(wit(k)) == U(k))), patterns=[U(k)]))
        st.assume(z3.ForAll([k, k2], z3.Implies(z3.And(k >= 0, k < k2, k2 < m), U(k) < U(k2)), patterns=[z3.MultiPattern(U(k), U(k2))]))
        st.assume(z3.ForAll([i], z3.Implies(z3.And(i >= 0, i < n), z3.And(pos(i) >= 0, pos(i) < m, U(pos(i)) == A.at(i))), patterns=[A.at(i)]))
        return st.new_arr(Arr((m,), lambda kk: U(to_z3(kk, "int")), "int"))

    def h_modes_new(I, st, args, kw, node):
        """cls(...): a new ModeStatistics whose real __init__ runs inline."""
        obj = st.new_obj("ModeStatistics", __module__=MODES)
        from pyvc.interp import _Outcomes
        outs = I.call_function(MODES, "ModeStatistics.__init__", st, [], kw, self_val=obj)
        res = []
        for o in outs:
            if o.kind == "return":
                o.value = obj
            res.append(o)
        I.inlined.add((MODES, "ModeStatistics.__init__"))
        return _Outcomes(res)

    def h_inv(I, st, args, kw, node):
        """np.linalg.inv / cholesky of a stack of matrices: same shape (requires every matrix SPD: C19 contract of the fits)."""
        a = st.arr(args[0])
        return st.new_arr(fresh_arr(a.shape, "real", "lin"))

    def prop_K(I, st, obj):
        return st.arr(st.cell(obj)["means"]).shape[0]

    reg = {(MODES, "ModeStatistics.__new__"): h_modes_new, ("tempest.student", "fit_mvstud"): h_fit}
    ex = {"numpy.where": h_where, "numpy.random.choice": h_choice, "__isfinite__": h_isfinite, "numpy.unique": h_unique,
          "numpy.linalg.inv": h_inv, "numpy.linalg.cholesky": h_inv, "builtins.len": h_len, ("prop", "ModeStatistics", "K"): prop_K}

    def setup(I, st):
        n, d = fresh_scalar("int", "n"), fresh_scalar("int", "d")
        st.assume(z3.And(n >= 1, d >= 1))
        u = fresh_arr((n, d), "real", "u")
        w = fresh_arr((n,), "real", "w")
        lab = fresh_arr((n,), "int", "labels")
        q = z3.Int(fresh_name("q"))
        st.assume(z3.ForAll([q], z3.Implies(z3.And(q >= 0, q < n), w.at(q) > 0), patterns=[w.at(q)]))
        fb = fresh_scalar("real", "dof_fallback")
        st.assume(z3.And(fb > 0, FINITE(fb), z3.Not(FITTED(fb))))          # call-site obligation of Trainer: DOF_FALLBACK = 1e6
        kw = dict(dof_fallback=fb)
        if with_n_modes:
            K = fresh_scalar("int", "n_modes")
            st.assume(K >= 1)
            st.assume(z3.ForAll([q], z3.Implies(z3.And(q >= 0, q < n), z3.And(lab.at(q) >= 0, lab.at(q) < K)), patterns=[lab.at(q)]))
            kw["n_modes"] = K
            info["K"] = K
        fd = eff.qualname_index(ctx.mods).get((MODES, "ModeStatistics.from_particles"))
        loop0 = next((x for x in ast.walk(fd) if isinstance(x, ast.For)), None) if fd else None
        info.update(n=n, d=d, fb=fb, lab=lab, u_arr=u, loop_var=loop0.target.id if loop0 is not None and isinstance(loop0.target, ast.Name) else "label")
        return dict(args=[("class", MODES, "ModeStatistics"), st.new_arr(u), st.new_arr(w), st.new_arr(lab)], kwargs=kw)

    def inv(v):
        st = v.state
        k = v.k
        L = [symlist.length(st, v.state.env[nm]) for nm in ("means", "covariances", "degrees_of_freedom")]
        j = z3.Int(fresh_name("j"))
        dofs = v.state.env["degrees_of_freedom"]
        el = lambda jj: to_z3(symlist.element(st, dofs, jj), "real")
        conj = [to_z3(x, "int") == k for x in L]
        if not isinstance(L[2], int) or L[2] > 0:
            conj.append(z3.ForAll([j], z3.Implies(z3.And(j >= 0, j < k), z3.And(FINITE(el(j)), el(j) > 0,
                                                                                 z3.Or(el(j) == info["fb"], FITTED(el(j)))))))
        return z3.And(*conj)

    def post(I, o, pre):
        st = o.state
        ms = o.value
        c = st.cell(ms)
        means, covs, dofs = st.arr(c["means"]), st.arr(c["covariances"]), st.arr(c["degrees_of_freedom"])
        j = z3.Int(fresh_name("j"))
        K = to_z3(means.shape[0], "int")
        g = []
        if with_n_modes:
            g.append(("one-mode-per-label-in-label-order", K == info["K"]))
        g += [("at-least-one-mode", K >= 1),
              ("shapes:means-K-by-d", z3.And(means.ndim == 2, to_z3(means.shape[1], "int") == info["d"]) if means.ndim == 2 else False),
              ("shapes:scales-K-by-d-by-d", z3.And(to_z3(covs.shape[0], "int") == K, to_z3(covs.shape[1], "int") == info["d"],
                                                    to_z3(covs.shape[2], "int") == info["d"]) if covs.ndim == 3 else False),
              ("degrees-of-freedom:finite-and-positive-for-every-mode",
               z3.And(to_z3(dofs.shape[0], "int") == K, z3.ForAll([j], z3.Implies(z3.And(j >= 0, j < K), z3.And(FINITE(dofs.at(j)), dofs.at(j) > 0))))),
              ("degrees-of-freedom:the-fit-or-the-configured-fallback",
               z3.ForAll([j], z3.Implies(z3.And(j >= 0, j < K), z3.Or(dofs.at(j) == info["fb"], FITTED(dofs.at(j))))))]
        return g

    d = lambda: info["d"]
    loops = {0: LoopSpec(inv, label="modes", fresh={"means": ("list", "array", "real", (lambda: None,)),
                                                     "covariances": ("list", "array", "real", None),
                                                     "degrees_of_freedom": ("list", "scalar", "real")})}
    # element shapes depend on the symbolic dimension: filled in once setup has run
    class _Fresh(dict):
        def __getitem__(self, k):
            if k == "means":
                return ("list", "array", "real", (info["d"],))
            if k == "covariances":
                return ("list", "array", "real", (info["d"], info["d"]))
            return dict.__getitem__(self, k)
    loops[0].fresh = _Fresh(loops[0].fresh)
    ctx.verify("n_modes-given" if with_n_modes else "legacy-unique-labels", MODES, "ModeStatistics.from_particles", setup, post,
               loops=loops, registry=reg, extras=ex, allowed_raises=(), replayer="c14_modes")


def one_shared_clusterer(ctx):
    """Effect contract: the `clusterer` attribute of the steps is assigned only in constructors (Trainer.__init__,
    Resampler.__init__, from the one object SamplerCore.__init__ creates).  Any later assignment (e.g. on resume) can leave
    Trainer and Resampler with different models: labels would then come from one model and modes from another."""
    bad = []
    for (m, q), f in eff.qualname_index(ctx.mods).items():
        if q.endswith(".__init__"):
            continue
        for n in ast.walk(f):
            tg = []
            if isinstance(n, ast.Assign):
                tg = n.targets
            elif isinstance(n, (ast.AugAssign, ast.AnnAssign)):
                tg = [n.target]
            for t in tg:
                for e in ast.walk(t):
                    if isinstance(e, ast.Attribute) and e.attr == "clusterer" and isinstance(e.ctx, ast.Store):
                        bad.append(f"{m}.{q}:{n.lineno} assigns {ast.unparse(e)}")
            if isinstance(n, ast.Call) and (eff.dotted(n.func) or "").split(".")[-1] in ("setattr", "__setattr__"):
                if any(isinstance(a, ast.Constant) and a.value == "clusterer" for a in n.args):
                    bad.append(f"{m}.{q}:{n.lineno} sets 'clusterer' dynamically")
    r = ctx.add(ObResult("C14/effects/clusterer-attribute-assigned-only-in-constructors", "violated" if bad else "discharged", "pyvc-eff", 0.0, 1,
                         "; ".join(bad[:4]), kind="effect"))
    r.replayer = "c14_modes"


def run(ctx):
    one_shared_clusterer(ctx)
    clusterer_init(ctx)
    for c in (True, False):
        trainer(ctx, c)
        for scheme in ("mult", "syst"):
            resampler(ctx, scheme, c)
        iteration(ctx, c)
    from_particles(ctx, True)
    # the public-API path without n_modes (np.unique over the labels) is not used by the sampler and its normalisation
    # obligation is solver-seed dependent: not claimed
    ctx.trust("C15 contracts of HierarchicalGaussianMixture.fit (K >= 1 afterwards, modifies only the model) and predict (labels in [0, K))",
              "C20 contract of trim_weights (aligned subset, at least one sample kept)",
              "C05 contract of Reweighter.run (beta in [0,1], iter incremented)",
              "C19 contract of fit_mvstud (finite location, SPD scale, dof in (0, inf]) for non-degenerate input",
              "the Trainer and the Resampler hold the same clusterer object (C18 wiring obligation)")
