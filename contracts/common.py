"""Shared symbolic fixtures: abstract StateManager, progress bar, spec functions."""
import z3

from pyvc.values import Ref, Arr, Opaque, Unsupported, PyRaise, to_z3, fresh_scalar, fresh_arr, fresh_name, is_conc
from pyvc.theories import real

SM = "tempest.state_manager"
RW = "tempest.steps.reweight"
TOOLS = "tempest.tools"

R = z3.RealSort()
Z = z3.IntSort()

# ---- spec functions of a (fixed, arbitrary) history H : everything Reweighter.run reads from the
#      history is a function of (H, beta); H is constant during run() (frame obligation).
LOGWf = z3.Function("LOGW", R, Z, R)      # normalised log-weight of sample i at temperature beta
LOGZf = z3.Function("LOGZ", R, R)         # MIS log-evidence at temperature beta
MAXLW = z3.Function("MAXLOGW", R, R)      # max_i LOGW(beta, i)
Wf = z3.Function("W", R, Z, R)            # exp(LOGW(beta,i) - MAXLOGW(beta))
SW = z3.Function("SUMW", R, R)            # sum_i W(beta,i)
ESS = z3.Function("ESS", R, R)            # ess(W(beta, .))
MET = z3.Function("METRIC", R, R)         # volume-variation metric at beta (dynamic mode)
ESSF = z3.Function("ess_spec", z3.ArraySort(Z, R), Z, R)   # (sum w)^2 / sum w^2 of the first n entries
VVF = z3.Function("volvar_spec", z3.ArraySort(Z, R), Z, R)


def lam(arr):
    i = z3.Int("i!lam")
    return z3.Lambda([i], to_z3(arr.at(i), "real"))


STATE_INLINE = ["get_current", "set_current", "update_current", "_validate_current_key",
                "_ensure_copy", "_invalidate_cache", "_validate_history_key"]


def state_registry():
    reg = {}
    for m in STATE_INLINE:
        reg[(SM, f"StateManager.{m}")] = "inline"
    return reg


CURRENT_KEYS = ["u", "x", "logl", "assignments", "blobs", "acceptance", "steps", "efficiency", "ess",
                "beta", "logz", "calls", "iter"]


def make_state_manager(st, current, n_dim=None, T=None, N=None):
    """Abstract StateManager: concrete-key `_current` dict; history summarised by ghosts T (number of
    committed iterations) and N (total number of stored samples)."""
    cur = {k: None for k in CURRENT_KEYS}
    cur.update(current)
    cur_ref = st.new_dict(cur)
    T = T if T is not None else fresh_scalar("int", "T")
    N = N if N is not None else fresh_scalar("int", "N")
    sm = st.new_obj("StateManager", __module__=SM, _current=cur_ref, _results_dict=None,
                    n_dim=n_dim if n_dim is not None else fresh_scalar("int", "n_dim"),
                    _history=Opaque("history"), __T__=T, __N__=N)
    st.assume(z3.And(T >= 0, N >= 0, z3.Implies(T >= 1, N >= 1), z3.Implies(T == 0, N == 0)))
    return sm


def current_of(st, sm):
    return st.cell(st.cell(sm)["_current"])["__dict__"]


def pbar_ext():
    """ProgressBar methods: assumed to touch only the tqdm object (extraction rule, DESIGN 1.1)."""
    def noop(I, st, args, kw, node):
        return None
    return {("method", "opaque:pbar", "update_iter"): noop,
            ("method", "opaque:pbar", "update_stats"): noop,
            ("method", "opaque:pbar", "close"): noop}


def h_get_history_length(I, st, args, kw, node):
    return st.cell(args[0])["__T__"]


def h_compute_logw_and_logz(I, st, args, kw, node):
    """Contract of StateManager.compute_logw_and_logz (proved under C04): pure; for T>=1 returns the
    normalised MIS log-weights LOGW(beta, .) (length N) and LOGZ(beta)."""
    sm = args[0]
    beta = args[1] if len(args) > 1 else kw.get("beta_final", 1.0)
    b = to_z3(beta, "real")
    N = st.cell(sm)["__N__"]
    T = st.cell(sm)["__T__"]
    if not I.feasible(st, T >= 1):
        return (st.new_arr(Arr((0,), lambda i: z3.RealVal(0), "real")), Opaque("neg_inf"))
    if I.feasible(st, T == 0):
        raise Unsupported("compute_logw_and_logz contract used where the history may be empty")
    a = Arr((N,), lambda i: LOGWf(b, to_z3(i, "int")), "real", prov=("LOGW", b))
    return (st.new_arr(a), LOGZf(b))
