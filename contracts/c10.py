"""C10 — rescaling the likelihood shifts log-evidence only (DESIGN §2/C10).

Coupling relation R_c between two seeded executions with log-likelihoods L and L + c: every quantity is equal except
  logl' = logl + c (row-wise)      and      logz'(t) = logz(t) + beta_t * c   (history and current value).
The proof is a non-interference argument assembled from contracts:
  O1  (spec level, from the C04 contract)  under R_c every mixture term exp(beta_t l - logz_t) is unchanged, hence
      un-normalised log-weights shift by beta*c, normalised log-weights are identical, the new log-evidence shifts by beta*c;
  O2  (T-EFF taint over the real AST)  log-likelihood / log-evidence *values* are read arithmetically only inside
      compute_logw_and_logz, the acceptance statement of BaseMCMCRunner.run, the isinf test of Mutator.run and
      display code; everywhere else they are only copied, stored, gathered or returned;
  O3  (relational VC on the real acceptance statements)  alpha computed from (logl + c, logl' + c) equals alpha computed
      from (logl, logl'): accept/reject decisions, hence particles and step-size adaptation, coincide;
  O4  warm-up: isinf(l + c) = isinf(l) for finite c and the evidence bookkeeping at beta = 0 does not read likelihood values;
  O5  no exp() of a shifted quantity outside logaddexp (overflow for |c| up to 1e3 would break 'up to rounding').
With O2, everything not covered by O1/O3/O4 is a function of R_c-equal inputs, so the two runs take the same branches and
draw the same random numbers.
"""
import ast
import z3

from pyvc.values import Ref, Arr, Opaque, Unsupported, PyRaise, to_z3, fresh_scalar, fresh_arr, fresh_name
from pyvc import npmodel, taint, eff
from pyvc.framework import ObResult
from pyvc.state import State
from pyvc.theories import real, sums
from .common import *  # noqa

MCMC, MUT = "tempest.mcmc", "tempest.steps.mutate"

COVERED = {
    (SM, "StateManager.compute_logw_and_logz"): "C04 contract + O1 shift lemma",
    (MCMC, "BaseMCMCRunner.run"): "O3 relational obligation on the acceptance statements",
    (MUT, "Mutator.run"): "O4: only np.isinf / np.isfinite tests read likelihood values",
    (MCMC, "BaseMCMCRunner._update_progress_bar"): "display only",
    ("tempest.core", "SamplerCore._update_progress_bar"): "display only",
}
SANITIZE = {(MCMC, "BaseMCMCRunner.run"): {"alpha"}, (MUT, "Mutator.run"): {"inf_logl_mask"}}


def shift_lemmas(ctx):
    """O1 over the C04 specification."""
    l, c, bt, zt, b, m, ln = z3.Reals("l c bt zt b logmix logn")
    ctx.lemma("O1/mixture-term-unchanged", [], real.exp(bt * (l + c) - (zt + bt * c) + ln) == real.exp(bt * l - zt + ln),
              detail="exp(beta_t (l+c) - (logz_t + beta_t c) + log(n_t/N)) = exp(beta_t l - logz_t + log(n_t/N))")
    ctx.lemma("O1/unnormalised-logw-shifts-by-beta-c", [], (b * (l + c) - m) == (b * l - m) + b * c,
              detail="with equal mixture sums: mis'(s) = mis(s) + beta c")
    # sum congruence over the history: two mixture arrays that agree term-wise have equal row sums (L-SUM-cong) — instantiated
    st = State()
    N, T = fresh_scalar("int", "N"), fresh_scalar("int", "T")
    st.assume(z3.And(N >= 1, T >= 1))
    L = z3.Function("logl_s", z3.IntSort(), z3.RealSort())
    B = z3.Function("beta_t", z3.IntSort(), z3.RealSort())
    Zt = z3.Function("logz_t", z3.IntSort(), z3.RealSort())
    W = z3.Function("logn_t", z3.IntSort(), z3.RealSort())
    cc = z3.Real("c")
    mix1 = Arr((N, T), lambda s, t: real.exp(B(t) * L(s) - Zt(t) + W(t)), "real")
    mix2 = Arr((N, T), lambda s, t: real.exp(B(t) * (L(s) + cc) - (Zt(t) + B(t) * cc) + W(t)), "real")
    prem, concl = sums.cong2_rule(st, mix2, mix1, 1)
    ctx.lemma("O1/mixture-sums-equal:termwise-premise", list(st.pc), prem,
              detail="premise of L-SUM-cong for the shifted and unshifted mixture arrays (fresh sample s, iteration t)")
    P1, P2 = sums.prefix2_fn(st, mix1, 1), sums.prefix2_fn(st, mix2, 1)
    s = z3.Int("s!o1")
    bf = z3.Real("beta")
    mis1 = bf * L(s) - real.log(P1(s, T - 1))
    mis2 = bf * (L(s) + cc) - real.log(P2(s, T - 1))
    ctx.lemma("O1/logw-shift-for-every-sample", list(st.pc) + [concl, s >= 0, s < N], mis2 == mis1 + bf * cc,
              detail="un-normalised balance-heuristic log-weight of every sample shifts by beta*c")
    # normalisation and evidence: lse(v + k) = lse(v) + k  (Lean: lse_shift, normalised_shift_invariant)
    from . import lean
    lean.require(ctx, "MisSum.lean", ["lse_shift", "normalised_shift_invariant"])
    ctx.expect_sat("O1/canary", list(st.pc) + [cc != 0])


def taint_obligations(ctx):
    res = taint.analyse(ctx.mods, sanitize=SANITIZE)
    for (m, q) in COVERED:
        ctx.fuc(m, q, role="relational-contract")
    uncovered = []
    for (m, q), ft in sorted(res.items()):
        if ft.uses and (m, q) not in COVERED:
            uncovered += [f"{m}.{q}:{ln} {w}" for ln, w in ft.uses]
    ctx.add(ObResult("C10/O2/likelihood-values-are-read-only-under-relational-contracts", "violated" if uncovered else "discharged",
                     "pyvc-eff", 0.0, len(res), " ; ".join(uncovered[:6]), kind="effect", line=None))
    if uncovered:
        ctx.results[-1].replayer = "c10_shift"
    # Mutator.run: only finiteness tests
    ft = res.get((MUT, "Mutator.run"))
    bad = [f"{ln} {w}" for ln, w in (ft.uses if ft else []) if not (w.startswith("call: np.isinf(") or w.startswith("call: np.isfinite("))]
    r = ctx.add(ObResult("C10/O4/warm-up-reads-likelihoods-only-through-finiteness-tests", "violated" if bad or ft is None else "discharged",
                         "pyvc-eff", 0.0, 1, " ; ".join(bad[:5]), kind="effect"))
    r.replayer = "c10_shift"
    # BaseMCMCRunner.run: tainted reads only inside the statements that build alpha
    ft = res.get((MCMC, "BaseMCMCRunner.run"))
    fdef = eff.qualname_index(ctx.mods).get((MCMC, "BaseMCMCRunner.run"))
    lines = set()
    for s in (ast.walk(fdef) if fdef else []):
        if isinstance(s, ast.Assign) and any(isinstance(t, ast.Name) and t.id == "alpha" or
                                             (isinstance(t, ast.Subscript) and isinstance(t.value, ast.Name) and t.value.id == "alpha")
                                             for t in s.targets):
            lines |= set(range(s.lineno, (s.end_lineno or s.lineno) + 1))
    bad = [f"{ln} {w}" for ln, w in (ft.uses if ft else []) if ln not in lines]
    r = ctx.add(ObResult("C10/O2/kernel-reads-likelihoods-only-in-the-acceptance-statements", "violated" if bad or ft is None else "discharged",
                         "pyvc-eff", 0.0, 1, " ; ".join(bad[:5]), kind="effect"))
    r.replayer = "c10_shift"
    # display functions do not write sampler state
    idx = eff.qualname_index(ctx.mods)
    for (m, q) in ((MCMC, "BaseMCMCRunner._update_progress_bar"), ("tempest.core", "SamplerCore._update_progress_bar")):
        f = idx.get((m, q))
        bad = []
        for n in (ast.walk(f) if f else []):
            if isinstance(n, (ast.Assign, ast.AugAssign)):
                for t in (n.targets if isinstance(n, ast.Assign) else [n.target]):
                    d = eff.dotted(t.value if isinstance(t, ast.Subscript) else t)
                    if d and d.startswith("self."):
                        bad.append(f"{n.lineno} assigns {d}")
            if isinstance(n, ast.Call):
                d = eff.dotted(n.func) or ""
                if d.split(".")[-1] in ("set_current", "update_current", "commit_current_to_history"):
                    bad.append(f"{n.lineno} calls {d}")
        ctx.add(ObResult(f"C10/O2/display-only:{q}", "violated" if bad or f is None else "discharged", "pyvc-eff", 0.0, 1,
                         " ; ".join(bad), kind="effect"))
    # the acceptance factor ignores the proposed likelihoods
    for cls in ("TPCNRunner", "RWMRunner"):
        f = idx.get((MCMC, f"{cls}._compute_acceptance_factor"))
        used = [n.lineno for n in (ast.walk(f) if f else []) if isinstance(n, ast.Name) and n.id == "logl_prime" and isinstance(n.ctx, ast.Load)]
        ctx.add(ObResult(f"C10/O3/{cls}._compute_acceptance_factor-does-not-read-logl_prime", "violated" if used or f is None else "discharged",
                         "pyvc-eff", 0.0, 1, f"read at lines {used}" if used else "", kind="effect"))
    # O5: no plain exp of a tainted quantity
    bad = []
    for (m, q), ft in res.items():
        for ln, w in ft.uses:
            if w.startswith("call: np.exp(") and (m, q) != (MCMC, "BaseMCMCRunner.run"):
                bad.append(f"{m}.{q}:{ln} {w}")
    r = ctx.add(ObResult("C10/O5/no-exp-of-shifted-quantities-outside-logaddexp", "violated" if bad else "discharged", "pyvc-eff", 0.0, 1,
                         " ; ".join(bad) + (" | exp(logw) overflows for shifts of order 1e3 (logaddexp.reduce is overflow-safe)" if bad else ""),
                         kind="effect"))
    r.replayer = "c10_shift"


def acceptance(ctx):
    """O3: the statements of BaseMCMCRunner.run that build `alpha`, executed with logl = A + c and logl' = B + c."""
    info = {}
    fdef = eff.qualname_index(ctx.mods).get((MCMC, "BaseMCMCRunner.run"))
    ctx.fuc(MCMC, "BaseMCMCRunner.run")
    if fdef is None:
        return
    loop = next((n for n in fdef.body if isinstance(n, ast.While)), None)
    stmts = []
    for s in (loop.body if loop else []):
        if isinstance(s, ast.Assign) and any((isinstance(t, ast.Name) and t.id == "alpha") or
                                             (isinstance(t, ast.Subscript) and isinstance(t.value, ast.Name) and t.value.id == "alpha")
                                             for t in s.targets):
            stmts.append(s)
    if not stmts:
        ctx.add(ObResult("C10/O3/acceptance-statements-found", "unknown", detail="no statement assigning `alpha` in the step loop")).replayer = "c10_shift"
        return
    I = ctx.interp()
    I.cur.append((MCMC, "BaseMCMCRunner.run"))
    st = State()
    n = fresh_scalar("int", "n_walkers")
    st.assume(n >= 1)
    c = z3.Real("c_shift")
    beta = fresh_scalar("real", "beta")
    st.assume(z3.And(beta > 0, beta <= 1))
    A, Bp, F = fresh_arr((n,), "real", "logl"), fresh_arr((n,), "real", "logl_prime"), fresh_arr((n,), "real", "factor")
    oob = fresh_arr((n,), "bool", "out_of_bounds")
    runner = st.new_obj("BaseMCMCRunner", __module__=MCMC, beta=beta, n_walkers=n,
                        logl=st.new_arr(Arr((n,), lambda i: A.at(i) + c, "real")))
    first = stmts[0]
    # the first statement is `alpha = self._compute_acceptance_factor(...)`: its result does not depend on the likelihoods (O3 syntactic
    # obligation above), modelled by a free array
    env = {"self": runner, "logl_prime": st.new_arr(Arr((n,), lambda i: Bp.at(i) + c, "real")), "out_of_bounds": st.new_arr(oob),
           "u_prime": Opaque("u_prime")}
    st.env = env
    todo = list(stmts)
    if isinstance(first.value, ast.Call) and (eff.dotted(first.value.func) or "").endswith("_compute_acceptance_factor"):
        env["alpha"] = st.new_arr(F)
        todo = stmts[1:]
    try:
        outs = I.exec_block(todo, st, MCMC)
    except __import__("pyvc.values", fromlist=["x"]).engine_errors() as e:
        ctx.add(ObResult("C10/O3/acceptance-statements/vc-generation", "unknown", detail=f"outside the supported subset: {type(e).__name__}: {str(e)[:200]}")).replayer = "c10_shift"
        return
    outs = [o for o in outs if o.kind == "fall"]
    if len(outs) != 1:
        ctx.add(ObResult("C10/O3/acceptance-statements/vc-generation", "unknown", detail="acceptance statements fork or raise")).replayer = "c10_shift"
        return
    stf = outs[0].state
    al = stf.arr(stf.env["alpha"])
    q = z3.Int("q!acc")
    term = to_z3(al.at(q), "real")
    term0 = z3.substitute(term, (c, z3.RealVal(0)))
    r = ctx.lemma("O3/acceptance-probability-independent-of-the-shift", list(stf.pc) + [q >= 0, q < n], term == term0, kind="vc",
                  detail="alpha_i built from (logl + c, logl' + c) equals alpha_i built from (logl, logl') for every walker")
    r.replayer = "c10_shift"
    r2 = ctx.lemma("O3/acceptance-is-the-tempered-likelihood-ratio", list(stf.pc) + [q >= 0, q < n, z3.Not(oob.at(q))],
                   term0 == z3.If(real.exp(beta * (Bp.at(q) - A.at(q)) + F.at(q)) <= 1, real.exp(beta * (Bp.at(q) - A.at(q)) + F.at(q)), 1),
                   kind="vc", detail="alpha_i = min(1, exp(beta (l'_i - l_i) + factor_i)) for in-bounds proposals")
    r2.replayer = "c10_shift"
    ctx.notes.append(f"O3 slice: {len(todo)} statement(s) of BaseMCMCRunner.run at lines {[s.lineno for s in todo]} executed symbolically; "
                     "the other statements of the step do not read likelihood values (O2 obligation)")


def isinf_invariance(ctx):
    x, c = z3.Reals("x c")
    ctx.notes.append("O4: np.isinf(l + c) = np.isinf(l) for finite c is IEEE-754 arithmetic on infinities (inf + c = inf); "
                     "under A1 it is the definition of the finiteness flag used by C11's contract")


def run(ctx):
    from . import lean as _lean
    _lean.require(ctx, "Sums.lean", ['prefix_unique', 'sum_cong_rule'])
    shift_lemmas(ctx)
    taint_obligations(ctx)
    acceptance(ctx)
    isinf_invariance(ctx)
    # the recorded (beta, logz, ess, weights) refer to one temperature: with O1 the recorded logz shifts by exactly beta'*c
    from . import c05
    n0 = len(ctx.results)
    for dyn in (False, True):
        c05.o_run(ctx, dyn, "nonempty")
    c05.o_fin(ctx)
    for r in ctx.results[n0:]:
        r.replayer = "c10_shift"
    ctx.trust("C04 contract of compute_logw_and_logz (value = balance-heuristic spec; proved under C04)",
              "C05 contracts of the Reweighter (recorded logz is LOGZ(beta') of the chosen beta'; beta', weights, ESS are functions of the "
              "normalised log-weights only)", "C11/C07 contracts of Mutator.run warm-up",
              "L-SUM rules: each statement is machine-checked in Lean/Mathlib over Finset sums (lemmas/Sums.lean; prefix_unique identifies the prefix function with the finite sum); what stays trusted is the transcription of those statements into the z3 axioms/rules of pyvc/theories/sums.py", "T-REAL exp/log axioms; Lean lemmas lse_shift / normalised_shift_invariant (MisSum.lean)",
              "the taint analysis is flow-insensitive per function and name-based across functions (sound for the package: no reflection, "
              "no dynamic attribute access — scan); sanitised names alpha (O3) and inf_logl_mask (O4) are justified by those obligations",
              "A1: exact equalities over the reals; 'up to floating-point rounding' is exercised only by the bounded paired runs",
              "same seed => same global RNG stream in both runs (C09)")
    ctx.bounded.append({"clause": "paired seeded runs with L and L + c agree (schedule, particles, ESS) and log-evidence shifts by beta*c",
                        "bound": "native replayer c10_shift: 8 option settings x shifts {3, -250, 1000, -1000}, n_particles=24, n_total=96 "
                                 "(run only when an obligation fails or is undecided)", "cases": 32})
