"""C20 — weight utilities: ESS bounds, trimming contract, volume metric (DESIGN §2/C20)."""
import ast
import z3

from pyvc.interp import LoopSpec
from pyvc.values import Ref, Arr, Opaque, Unsupported, to_z3, fresh_scalar, fresh_arr, fresh_name
from pyvc import npmodel
from pyvc.theories import sums, real
from .common import *  # noqa
from . import lean

CL = "tempest.cluster"


def nonneg(w, n):
    i = z3.Int("i!nn")
    return z3.ForAll([i], z3.Implies(z3.And(i >= 0, i < n), w.at(i) >= 0))


def sq_arr(w):
    return Arr(w.shape, lambda i: w.at(i) * w.at(i), "real")


def sum_hints(st, w, n, S, Q, w2, bounds=False):
    """Totals of the 1-d arrays the routine summed, for those pointwise equal to w, w^2, w/S or (w/S)^2 (L-SUM-cong + L-SUM-lin)."""
    from pyvc import discharge
    R = z3.RealVal
    hints = []
    nn = z3.ToReal(n)
    for (a, P) in st.ghost.get("sumarrs", []):
        if a.ndim != 1:
            continue
        tot = sums.prefix_fn(st, a)(to_z3(a.shape[0], "int") - 1)
        lib = (("w", w, lambda t: [t == S]),
               ("w^2", w2, lambda t: [t == Q]),
               ("w/S", Arr(w.shape, lambda j: w.at(j) / S, "real"), lambda t: [t == 1]),
               ("(w/S)^2", Arr(w.shape, lambda j: (w.at(j) / S) * (w.at(j) / S), "real"),
                lambda t: [t * (S * S) == Q] + ([t <= 1, t >= R("1e-4"), t * nn >= 1] if bounds else [])))     # lemma/normalised-squares-total
        for nm, b, facts_of in lib:
            j = z3.Int(fresh_name("j"))
            same = z3.Implies(z3.And(j >= 0, j < n), to_z3(a.at(j), "real") == to_z3(b.at(j), "real"))
            # pointwise equality as pure arithmetic over the terms w(j), S (no path condition needed: equal without it => equal with it)
            sv = z3.Solver()
            sv.set("timeout", 1000)
            sv.add(z3.Not(to_z3(a.at(j), "real") == to_z3(b.at(j), "real")))
            stt = "unknown"
            if sv.check() == z3.unsat:
                stt = "discharged" if z3.is_true(z3.simplify(to_z3(a.shape[0], "int") == n)) else \
                    discharge.check_formulas(list(st.pc) + [to_z3(a.shape[0], "int") != n], 2000)[0]
            if stt == "discharged":
                hints += facts_of(tot)
                break
    return hints


# --------------------------------------------------------------------------- ESS value
def ess_value(ctx, module, qualname, name, self_obj=False):
    info = {}

    def setup(I, st):
        n = fresh_scalar("int", "n")
        w = fresh_arr((n,), "real", "w")
        st.assume(n >= 1)
        st.assume(nonneg(w, n))
        S = sums.total(st, w)
        w2 = sq_arr(w)
        Q = sums.total(st, w2)
        st.assume(z3.And(S > 0, Q > 0))     # positive total weight (for w >= 0: sum w > 0 <=> sum w^2 > 0)
        info.update(n=n, w=w, S=S, Q=Q, w2=w2)
        call = dict(args=[st.new_arr(w)])
        if self_obj:
            call["self_val"] = st.new_obj("HierarchicalGaussianMixture", __module__=CL)
        return call

    def post(I, o, pre):
        st = o.state
        S, Q, w2, w, n = info["S"], info["Q"], info["w2"], info["w"], info["n"]
        # what the routine summed, matched against the arrays an ESS computation may sum (L-SUM-cong: premise checked for a fresh
        # index, conclusion = the total of the matched spec array).  The postcondition itself is only the value.
        hints = sum_hints(st, w, n, S, Q, w2)
        return [("value-is-spec", z3.Implies(z3.And(*hints), to_z3(o.value, "real") == S * S / Q))]

    ctx.verify(name, module, qualname, setup, post, registry={}, replayer="c20_ess")


# --------------------------------------------------------------------------- ESS: binary64 range (no overflow, no vanishing denominator)
W_MAX, S_MIN, N_MAX = "1e300", "1e-300", 10000
F_BIG, F_TINY = "1e307", "1e-307"          # inside the binary64 normal range (1.8e308 / 2.2e-308) with a decade of slack for rounding


def ess_range(ctx, module, qualname, self_obj=False):
    """On the stated domain (1 <= N <= 1e4, 0 <= w_i <= 1e300, sum w >= 1e-300: any representable absolute scale) every intermediate
    value the routine computes stays within the binary64 normal range and every divisor stays away from zero — evaluated over the
    reals with a decade of slack, so that rounding (relative 1e-16 per operation) cannot change the verdict.  This is what makes the
    real-arithmetic value contract above meaningful in binary64: `(sum w)^2 / sum w^2` computed directly satisfies the same real
    contract but overflows for sum w > 1.3e154 and divides by zero for sum w^2 < 1e-308."""
    info = {}
    rec = []
    R = z3.RealVal

    def setup(I, st):
        n = fresh_scalar("int", "n")
        w = fresh_arr((n,), "real", "w")
        i = z3.Int("i!rg")
        st.assume(z3.And(n >= 1, n <= N_MAX))
        st.assume(z3.ForAll([i], z3.Implies(z3.And(i >= 0, i < n), z3.And(w.at(i) >= 0, w.at(i) <= R(W_MAX))), patterns=[w.at(i)]))
        S = sums.total(st, w)
        st.assume(S >= R(S_MIN))
        info.update(n=n, w=w, S=S)
        I.value_hook = lambda st_, node, v, role: rec.append((role, v, node, st_))
        call = dict(args=[st.new_arr(w)])
        if self_obj:
            call["self_val"] = st.new_obj("HierarchicalGaussianMixture", __module__=CL)
        return call

    def post(I, o, pre):
        I.value_hook = None
        st = o.state
        n, w, S = info["n"], info["w"], info["S"]
        g = []
        # ---- proved facts about finite sums offered to the solver (each a rule with a checked premise, or a Lean lemma instance)
        i = z3.Int("i!f")
        w2 = sq_arr(w)
        Q = sums.total(st, w2)
        hints = [S <= z3.ToReal(n) * R(W_MAX),                                   # Sums.lean sum_le_card_mul (w_i <= W_MAX)
                 z3.ForAll([i], z3.Implies(z3.And(i >= 0, i < n), w.at(i) <= S), patterns=[w.at(i)]),      # Sums.lean elem_le_sum (w >= 0)
                 S * S <= z3.ToReal(n) * Q, Q <= S * S, Q >= 0]                  # Ess.lean ess_upper / ess_lower
        hints += sum_hints(st, w, n, S, Q, w2, bounds=True)
        info["hints"] = hints
        seen = set()
        for (role, v, node, st_) in rec:
            key = (role, getattr(node, "lineno", 0), getattr(node, "col_offset", 0), getattr(node, "end_col_offset", 0))
            if key in seen:
                continue
            seen.add(key)
            src = ast.unparse(node)[:60]
            terms = []
            if isinstance(v, Ref) and v.kind == "arr":
                a = st.arr(v) if v.oid in st.heap else None
                if a is None or a.sort != "real" or a.ndim != 1:
                    continue
                q = z3.Int(fresh_name("q"))
                terms.append((z3.And(q >= 0, q < to_z3(a.shape[0], "int")), to_z3(a.at(q), "real")))
            elif z3.is_expr(v) and z3.is_real(v):
                terms.append((z3.BoolVal(True), v))
            elif isinstance(v, float):
                terms.append((z3.BoolVal(True), R(repr(v))))
            for (dom, t) in terms:
                if role == "denominator":
                    g.append((f"line-{node.lineno}:divisor `{src}` stays away from zero", hints + [dom], z3.Or(t >= R(F_TINY), t <= -R(F_TINY))))
                else:
                    g.append((f"line-{node.lineno}:`{src}` stays within the binary64 range", hints + [dom], z3.And(t <= R(F_BIG), t >= -R(F_BIG))))
        return [(nm, z3.Implies(z3.And(*hyp), goal)) for (nm, hyp, goal) in g] or [("some-intermediate-recorded", z3.BoolVal(False))]

    def witness(model, label):
        from pyvc.replay import zval
        try:
            n = zval(model, info["n"])
            if isinstance(n, int) and 1 <= n <= 64:
                return {"replayer": "c20_ess", "input": {"w": [float(zval(model, info["w"].at(k))) for k in range(n)]}}
        except Exception:
            pass
        return {"replayer": "c20_ess", "input": {}}

    ctx.verify("binary64-range", module, qualname, setup, post, registry={}, witness=witness, replayer="c20_ess")


def recip_lemma(D, T, Q, N):
    """D T = Q, T > 0, Q > 0, N >= 1  =>  1/D/N = T/Q/N"""
    return z3.Implies(z3.And(T > 0, Q > 0, N >= 1, D * T == Q), 1 / D / N == T / Q / N)


def compute_ess(ctx):
    info = {}

    def setup(I, st):
        n = fresh_scalar("int", "n")
        lw = fresh_arr((n,), "real", "logw")
        st.assume(n >= 1)
        info.update(n=n, lw=lw)
        return dict(args=[st.new_arr(lw)])

    def post(I, o, pre):
        st = o.state
        n, lw = info["n"], info["lw"]
        M = st.ghost[("M", lw.uid)]
        E_code, sq_code = st.ghost["sumarrs"][-2][0], st.ghost["sumarrs"][-1][0]
        e = Arr((n,), lambda i: real.exp(lw.at(i) - M), "real")
        S = sums.total(st, e)
        e2 = sq_arr(e)
        Q = sums.total(st, e2)
        b = Arr((n,), lambda i: e2.at(i) / (S * S), "real", prov=("div", S * S, e2))
        p1, c1 = sums.cong_rule(st, E_code, e, "e")
        p2, c2 = sums.cong_rule(st, sq_code, b, "sq")
        D_code = sums.prefix_fn(st, sq_code)(to_z3(sq_code.shape[0], "int") - 1)
        return [("weights-are-exp-of-shifted-logw", p1, c1),
                ("squares-are-e2-over-S2", z3.Implies(S > 0, p2), z3.Implies(S > 0, c2)),
                # instance of lemma/reciprocal-of-normalised-squares (proved below for all reals) at D = the total the code divides by
                ("value-is-spec-over-n", z3.Implies(z3.And(S > 0, Q > 0, recip_lemma(D_code, S * S, Q, z3.ToReal(n))),
                                                    to_z3(o.value, "real") == S * S / Q / z3.ToReal(n)))]

    ctx.verify("", TOOLS, "compute_ess", setup, post, registry={}, replayer="c20_ess")


def ess_lemmas(ctx):
    S, Q, c, N, a = z3.Reals("S Q c N a")
    T_, D_ = z3.Reals("T D")
    ctx.lemma("lemma/reciprocal-of-normalised-squares", [], recip_lemma(D_, T_, Q, N), detail="1/(Q/T)/N = T/Q/N")
    ctx.lemma("lemma/normalised-squares-total", [T_ > 0, Q >= 0, Q <= T_, T_ <= N * Q, N >= 1, N <= 10000, D_ * T_ == Q],
              z3.And(D_ <= 1, D_ * N >= 1, D_ * 10000 >= 1),
              detail="D = sum (w_i/S)^2 = Q/S^2 with Q <= S^2 <= N Q (Ess.lean) lies in [1/N, 1]: the divisor of the normalise-then-square form")
    ess = lambda s, q: s * s / q
    ctx.lemma("lemma/ess-scale-invariant", [Q > 0, c > 0], ess(c * S, c * c * Q) == ess(S, Q),
              detail="ess(c*w) = ess(w): sum(c w) = c S, sum((c w)^2) = c^2 Q (L-SUM-lin)")
    ctx.lemma("lemma/ess-uniform-is-N", [N >= 1, a > 0], ess(N * a, N * a * a) == N,
              detail="uniform weights a: S = N a, Q = N a^2 (L-SUM-const)")
    ctx.lemma("lemma/ess-bounds-from-cauchy-schwarz", [Q > 0, S * S <= N * Q, Q <= S * S],
              z3.And(ess(S, Q) >= 1, ess(S, Q) <= N),
              detail="1 <= ess <= N given (sum w)^2 <= N sum w^2 and sum w^2 <= (sum w)^2 (Lean: ess_upper, ess_lower)")
    l, M, cc = z3.Reals("l M cc")
    ctx.lemma("lemma/compute_ess-shift-invariant", [], real.exp((l + cc) - (M + cc)) == real.exp(l - M),
              detail="adding a constant to logw leaves exp(logw - max) unchanged")
    lean.require(ctx, "Ess.lean", ["ess_upper", "ess_lower", "ess_scale"])


# --------------------------------------------------------------------------- trim_weights
def trim(ctx):
    info = {}

    def setup(I, st):
        n = fresh_scalar("int", "n")
        bins = fresh_scalar("int", "bins")
        ess = fresh_scalar("real", "ess")
        w = fresh_arr((n,), "real", "w0")
        smp = fresh_arr((n,), "int", "samples")
        st.assume(z3.And(n >= 1, bins >= 1, ess > 0, ess <= 1))
        st.assume(nonneg(w, n))
        S = sums.total(st, w)
        st.assume(S > 0)
        wr = st.new_arr(w)
        info.update(n=n, bins=bins, ess=ess, w0=w, smp=smp, S=S, wr=wr)
        return dict(args=[st.new_arr(smp), wr, ess, bins])

    def inv(v):
        i = v["i"]
        return z3.And(i >= 0, i <= info["bins"] - 1)

    def hints(v):
        st = v.state
        arrs = [a for (a, P) in st.ghost["sumarrs"]]
        sqW = next(a for a in arrs if a.prov and a.prov[0] == 'sq')
        sq1 = arrs[-1]
        wt0 = sq1.prov[1].prov[2]     # sq1 = (wt0 / sum wt0) ** 2
        W = sqW.prov[1]
        at0 = v["i"] + 1 == 0      # the iteration that just ran had i == 0 (i was decremented since)
        p1, c1 = sums.cong_rule(st, wt0, W, "wt0")
        p2, c2 = sums.cong_rule(st, sq1, sqW, "sq1")
        m, sel, _ = npmodel.mask_selection(v.I, st, v["mask"])
        ic, kq = z3.Int("ic!h"), z3.Int("k!h")
        n = info["n"]
        ident_p = z3.And(m == n, z3.Implies(z3.And(ic >= 0, ic < n), sel(ic) == ic))
        ident_c = z3.And(m == n, z3.ForAll([kq], z3.Implies(z3.And(kq >= 0, kq < n), sel(kq) == kq), patterns=[sel(kq)]))
        PW, Pt0 = sums.prefix_fn(st, W), sums.prefix_fn(st, wt0)
        X = sq1.prov[1]               # the renormalised kept weights wt0 / sum(wt0) whose squares are summed
        ie, ke = z3.Int("ie!h"), z3.Int("ke!h")
        same_p = z3.Implies(z3.And(ie >= 0, ie < n), to_z3(X.at(ie), "real") == to_z3(W.at(ie), "real"))
        same_c = z3.ForAll([ke], z3.Implies(z3.And(ke >= 0, ke < n), to_z3(X.at(ke), "real") == to_z3(W.at(ke), "real")))
        return [("at-p0-selection-is-identity", z3.Implies(at0, ident_p), z3.Implies(at0, ident_c)),
                ("at-p0-all-kept", z3.Implies(at0, p1), z3.Implies(at0, c1)),
                ("normalised-total-is-one", PW(n - 1) == 1, PW(n - 1) == 1),
                ("at-p0-kept-total-is-one", z3.Implies(at0, Pt0(m - 1) == 1), z3.Implies(at0, Pt0(m - 1) == 1)),
                # L-SUM-cong on the squares, with the premise stated on the bases (pointwise-equal arrays have pointwise-equal
                # squares): keeps the query free of nonlinear arithmetic, which made it solver-seed dependent
                ("at-p0-same-squares", z3.Implies(at0, z3.And(m == n, same_p)), z3.Implies(at0, z3.And(same_c, c2)))]

    def post(I, o, pre):
        st = o.state
        L = o.locals
        n = info["n"]
        W = st.arr(info["wr"])                # caller's array after the call (normalised in place)
        out_s, out_w = st.arr(o.value[0]), st.arr(o.value[1])
        mask = st.arr(L["mask"])
        thr = L["threshold"]
        m, sel, inv_ = npmodel.mask_selection(I, st, mask)
        i, k = z3.Int("i!p"), z3.Int("k!p")
        Pw = sums.prefix_fn(st, W)
        Pt = sums.prefix_fn(st, out_w)
        return [
            ("frame:caller-weights-normalised-in-place",
             z3.ForAll([i], z3.Implies(z3.And(i >= 0, i < n), W.at(i) * info["S"] == info["w0"].at(i)))),
            ("threshold-set", z3.ForAll([i], z3.Implies(z3.And(i >= 0, i < n), mask.at(i) == (W.at(i) >= thr)))),
            ("aligned:same-selection", z3.And(to_z3(out_s.shape[0], "int") == m, to_z3(out_w.shape[0], "int") == m,
                                              z3.ForAll([k], z3.Implies(z3.And(k >= 0, k < m),
                                                                        out_s.at(k) == info["smp"].at(sel(k)))))),
            ("trimmed-weights-renormalised-selection",
             z3.ForAll([k], z3.Implies(z3.And(k >= 0, k < m),
                                       out_w.at(k) == W.at(sel(k)) / sums.total(st, st.ghost["sumarrs"][-1][0].prov[1].prov[2])))),
            ("ess-fraction-reached", to_z3(L["ess_trimmed"], "real") / to_z3(L["ess_total"], "real") >= info["ess"]),
            ("scan-index-never-negative", L["i"] >= 0),
        ]

    old = ctx.timeout_ms
    ctx.timeout_ms = max(old, 300000)    # the congruence hints take 10-40 s depending on machine load: budget >= 8x
    ctx.verify("", TOOLS, "trim_weights", setup, post, loops={0: LoopSpec(inv, label="scan", hints=hints,
                                                                                    variant=(lambda v: ("int", v["i"])) if ctx.prop == "C18" else None)},
               registry={}, replayer="c20_trim")
    ctx.timeout_ms = old


def run(ctx):
    from . import lean as _lean
    _lean.require(ctx, "Sums.lean", ['prefix_unique', 'sum_prefix_nonneg', 'sum_prefix_mono', 'sum_scale', 'sum_div_const', 'sum_const_rule', 'max_attained'])
    ess_value(ctx, TOOLS, "effective_sample_size", "")
    ess_value(ctx, CL, "HierarchicalGaussianMixture._compute_effective_sample_size", "", self_obj=True)
    compute_ess(ctx)
    ess_range(ctx, TOOLS, "effective_sample_size")
    ess_range(ctx, CL, "HierarchicalGaussianMixture._compute_effective_sample_size", self_obj=True)
    ess_lemmas(ctx)
    trim(ctx)
    from . import c20_vol
    c20_vol.run(ctx)
    ctx.trust("L-SUM rules: each statement is machine-checked in Lean/Mathlib over Finset sums (lemmas/Sums.lean; prefix_unique identifies the prefix function with the finite sum); what stays trusted is the transcription of those statements into the z3 axioms/rules of pyvc/theories/sums.py", "L-MASK axioms (boolean indexing)",
              "np.percentile(w, 0) = min w and percentile >= min", "np.linspace formula", "np.max attains and bounds")
