#!/bin/bash
# usage: tools_verify_seed.sh <PROP> <N>   — confirm a seeded change: tests unchanged, demo PASS on HEAD, FAIL with patch
prop=$1; n=$2
src=/tmp/wt/$prop/_out
wt=/tmp/wtv/${prop}_$n
out=/verif/seeded/${prop}_$n
mkdir -p /tmp/wtv $out
git -C /repo worktree add -q --detach $wt HEAD 2>/dev/null || { echo "worktree failed"; exit 1; }
cp $src/patch$n.diff $out/patch.diff; cp $src/demo$n.py $out/demo.py; cp $src/notes$n.md $out/notes.md 2>/dev/null
cd $wt
PYTHONPATH=$wt /venv/bin/python $out/demo.py > $out/demo_head.log 2>&1; d0=$?
if ! git apply $out/patch.diff 2> $out/apply.log; then echo "$prop $n APPLY-FAILED"; cd /; git -C /repo worktree remove --force $wt; exit 1; fi
PYTHONPATH=$wt /venv/bin/python $out/demo.py > $out/demo_patched.log 2>&1; d1=$?
PYTHONPATH=$wt /venv/bin/python -m pytest -q -p no:cacheprovider --timeout=900 -x --deselect tests/test_sample_method.py::SampleMethodTestCase::test_sample_with_save_every --deselect tests/test_sampler_features.py::SamplerFeaturesTestCase::test_custom_output_dir --deselect tests/test_state.py::SamplerStateTestCase::test_resume > $out/tests.log 2>&1; t=$?
tail -1 $out/tests.log > $out/tests_summary.txt
cd /; git -C /repo worktree remove --force $wt
echo "$prop $n demo_head=$d0 demo_patched=$d1 tests_rc=$t $(cat $out/tests_summary.txt)"
