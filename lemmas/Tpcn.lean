import Mathlib

/-!
Lemmas behind C03/L1 (tpCN proposal is reversible w.r.t. the Student-t preconditioning density).

`x = ν + δ(u) > 0`.  Up to constants that do not depend on u:
  t_ν(u)            ∝ (x / ν) ^ (-α)            with α = (ν + d)/2
  IG(s; α, x/2)     = (x/2)^α / Γ(α) · s^(-α-1) · exp(-(x/2)/s)
so the u-dependent normalisers cancel: (x/ν)^(-α) · (x/2)^α = (ν/2)^α.
-/

open Real

theorem student_times_invgamma_normaliser_constant (x ν α : ℝ) (hx : 0 < x) (hν : 0 < ν) :
    (x / ν) ^ (-α) * (x / 2) ^ α = (ν / 2) ^ α := by
  have h1 : 0 < x / ν := div_pos hx hν
  have h2 : (0:ℝ) < x / 2 := by positivity
  rw [Real.rpow_neg h1.le, ← Real.inv_rpow h1.le, ← Real.mul_rpow (inv_nonneg.mpr h1.le) h2.le]
  congr 1
  field_simp

/-- the exponent of the joint density of (u, s, u') is symmetric in (δ(u), δ(u')) when a² = 1 - σ². -/
theorem exponent_symmetric (ν du dv p a σ : ℝ) (hσ : σ ≠ 0) (ha : a * a = 1 - σ * σ) :
    (ν + du) + (dv - 2 * a * p + a * a * du) / (σ * σ) = (ν + dv) + (du - 2 * a * p + a * a * dv) / (σ * σ) := by
  have hs : σ * σ ≠ 0 := mul_ne_zero hσ hσ
  rw [ha]
  field_simp
  ring
