import Mathlib
open Finset BigOperators

/-- C20/L1 upper bound: (Σw)² ≤ N·Σw²  (Cauchy–Schwarz), hence ess = (Σw)²/Σw² ≤ N. -/
theorem ess_upper (n : ℕ) (w : Fin n → ℝ) :
    (∑ i, w i) ^ 2 ≤ (n : ℝ) * ∑ i, (w i) ^ 2 := by
  have h := sq_sum_le_card_mul_sum_sq (s := (Finset.univ : Finset (Fin n))) (f := w)
  simpa using h

/-- C20/L1 lower bound: for w ≥ 0, Σw² ≤ (Σw)², hence ess ≥ 1. -/
theorem ess_lower (n : ℕ) (w : Fin n → ℝ) (h : ∀ i, 0 ≤ w i) :
    ∑ i, (w i) ^ 2 ≤ (∑ i, w i) ^ 2 := by
  exact Finset.sum_sq_le_sq_sum_of_nonneg (fun i _ => h i)

/-- scale invariance of the spec: ((Σ c·w)²)/(Σ (c·w)²) = (Σw)²/(Σw²) for c ≠ 0. -/
theorem ess_scale (n : ℕ) (w : Fin n → ℝ) (c : ℝ) (hc : c ≠ 0) :
    (∑ i, c * w i) ^ 2 / (∑ i, (c * w i) ^ 2) = (∑ i, w i) ^ 2 / (∑ i, (w i) ^ 2) := by
  have h1 : (∑ i, c * w i) = c * ∑ i, w i := by rw [Finset.mul_sum]
  have h2 : (∑ i, (c * w i) ^ 2) = c ^ 2 * ∑ i, (w i) ^ 2 := by
    rw [Finset.mul_sum]; apply Finset.sum_congr rfl; intro i _; ring
  rw [h1, h2, mul_pow]
  have hc2 : c ^ 2 ≠ 0 := pow_ne_zero 2 hc
  rw [mul_div_mul_left _ _ hc2]
