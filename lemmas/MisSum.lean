import Mathlib
open Finset BigOperators

/-- C04/L1: the mixture density Σ_t (n_t/N)·exp(β_t·l − z_t) does not depend on the order of the
iterations: any permutation σ of the iteration indices leaves it unchanged. -/
theorem mixture_perm_invariant (T : ℕ) (n β z : Fin T → ℝ) (N l : ℝ) (σ : Equiv.Perm (Fin T)) :
    ∑ t, (n (σ t) / N) * Real.exp (β (σ t) * l - z (σ t)) = ∑ t, (n t / N) * Real.exp (β t * l - z t) := by
  exact Equiv.sum_comp σ (fun t => (n t / N) * Real.exp (β t * l - z t))

/-- log-sum-exp shifts with a common shift of its arguments. -/
theorem lse_shift (N : ℕ) (u : Fin N → ℝ) (c : ℝ) (h : 0 < ∑ s, Real.exp (u s)) :
    Real.log (∑ s, Real.exp (u s + c)) = Real.log (∑ s, Real.exp (u s)) + c := by
  have : ∑ s, Real.exp (u s + c) = (∑ s, Real.exp (u s)) * Real.exp c := by
    rw [Finset.sum_mul]; apply Finset.sum_congr rfl; intro s _; rw [Real.exp_add]
  rw [this, Real.log_mul (ne_of_gt h) (ne_of_gt (Real.exp_pos c)), Real.log_exp]

/-- normalised log-weights u_s − log Σ exp u are invariant under a common shift of u. -/
theorem normalised_shift_invariant (N : ℕ) (u : Fin N → ℝ) (c : ℝ) (s : Fin N)
    (h : 0 < ∑ s, Real.exp (u s)) :
    (u s + c) - Real.log (∑ s, Real.exp (u s + c)) = u s - Real.log (∑ s, Real.exp (u s)) := by
  rw [lse_shift N u c h]; ring
