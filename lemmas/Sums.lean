import Mathlib
open Finset BigOperators

/-! T-SUM lemmas used as proof rules by the VC generator (pyvc/theories/sums.py).
The generator introduces, for an array `a` of length `n`, a prefix function with `P 0 = 0` and
`P (m+1) = P m + a m` for `m < n` (index shifted by one w.r.t. the Python text, where `P(-1) = 0`).
`prefix_unique` identifies it with the Finset sum; every rule is then a Mathlib fact about finite sums. -/

/-- the recurrence has exactly one solution on `0..n`: the finite sum -/
theorem prefix_unique (n : ℕ) (a P : ℕ → ℝ) (h0 : P 0 = 0)
    (hs : ∀ m, m < n → P (m + 1) = P m + a m) :
    ∀ m, m ≤ n → P m = ∑ i ∈ range m, a i := by
  intro m
  induction m with
  | zero => intro _; simp [h0]
  | succ k ih =>
    intro hk
    have hk' : k < n := Nat.lt_of_succ_le hk
    rw [hs k hk', ih (Nat.le_of_lt hk'), Finset.sum_range_succ]

/-- L-SUM-nonneg: non-negative summands give non-negative, monotone prefix sums -/
theorem sum_prefix_nonneg (m : ℕ) (a : ℕ → ℝ) (h : ∀ i, i < m → 0 ≤ a i) :
    0 ≤ ∑ i ∈ range m, a i :=
  Finset.sum_nonneg (fun i hi => h i (Finset.mem_range.mp hi))

theorem sum_prefix_mono (m1 m2 : ℕ) (a : ℕ → ℝ) (hm : m1 ≤ m2) (h : ∀ i, i < m2 → 0 ≤ a i) :
    ∑ i ∈ range m1, a i ≤ ∑ i ∈ range m2, a i := by
  apply Finset.sum_le_sum_of_subset_of_nonneg
  · exact Finset.range_mono hm
  · intro i hi _; exact h i (Finset.mem_range.mp hi)

/-- L-SUM-cong -/
theorem sum_cong_rule (m : ℕ) (a b : ℕ → ℝ) (h : ∀ i, i < m → a i = b i) :
    ∑ i ∈ range m, a i = ∑ i ∈ range m, b i :=
  Finset.sum_congr rfl (fun i hi => h i (Finset.mem_range.mp hi))

/-- L-SUM-lin -/
theorem sum_scale (m : ℕ) (a : ℕ → ℝ) (c : ℝ) : ∑ i ∈ range m, c * a i = c * ∑ i ∈ range m, a i := by
  rw [Finset.mul_sum]

theorem sum_div_const (m : ℕ) (a : ℕ → ℝ) (c : ℝ) : ∑ i ∈ range m, a i / c = (∑ i ∈ range m, a i) / c := by
  rw [Finset.sum_div]

theorem sum_add (m : ℕ) (a b : ℕ → ℝ) : ∑ i ∈ range m, (a i + b i) = ∑ i ∈ range m, a i + ∑ i ∈ range m, b i :=
  Finset.sum_add_distrib

theorem sum_sub (m : ℕ) (a b : ℕ → ℝ) : ∑ i ∈ range m, (a i - b i) = ∑ i ∈ range m, a i - ∑ i ∈ range m, b i :=
  Finset.sum_sub_distrib (f := a) (g := b)

/-- L-SUM-const -/
theorem sum_const_rule (m : ℕ) (a : ℕ → ℝ) (c : ℝ) (h : ∀ i, i < m → a i = c) :
    ∑ i ∈ range m, a i = (m : ℝ) * c := by
  rw [Finset.sum_congr rfl (fun i hi => h i (Finset.mem_range.mp hi))]
  simp

/-- L-SUM-pos: at least one summand, all positive -/
theorem sum_pos_rule (n : ℕ) (a : ℕ → ℝ) (hn : 1 ≤ n) (h : ∀ i, i < n → 0 < a i) :
    0 < ∑ i ∈ range n, a i := by
  apply Finset.sum_pos
  · intro i hi; exact h i (Finset.mem_range.mp hi)
  · exact ⟨0, Finset.mem_range.mpr hn⟩

/-- an entry of a non-negative row is at most the row sum -/
theorem elem_le_sum (n : ℕ) (a : ℕ → ℝ) (j : ℕ) (hj : j < n) (h : ∀ i, i < n → 0 ≤ a i) :
    a j ≤ ∑ i ∈ range n, a i :=
  Finset.single_le_sum (f := a) (fun i hi => h i (Finset.mem_range.mp hi)) (Finset.mem_range.mpr hj)

/-- weighted-average bound (np.dot of non-negative weights with bounded values) -/
theorem dot_bound (n : ℕ) (w v : ℕ → ℝ) (lo hi : ℝ) (hw : ∀ i, i < n → 0 ≤ w i)
    (hv : ∀ i, i < n → lo ≤ v i ∧ v i ≤ hi) :
    lo * ∑ i ∈ range n, w i ≤ ∑ i ∈ range n, w i * v i ∧
    ∑ i ∈ range n, w i * v i ≤ hi * ∑ i ∈ range n, w i := by
  constructor
  · rw [Finset.mul_sum]
    apply Finset.sum_le_sum
    intro i hi
    have h1 := hw i (Finset.mem_range.mp hi)
    have h2 := (hv i (Finset.mem_range.mp hi)).1
    nlinarith
  · rw [Finset.mul_sum]
    apply Finset.sum_le_sum
    intro i hi
    have h1 := hw i (Finset.mem_range.mp hi)
    have h2 := (hv i (Finset.mem_range.mp hi)).2
    nlinarith

/-- non-negative summands give a non-negative product entry (np.dot) -/
theorem dot_nonneg (n : ℕ) (a b : ℕ → ℝ) (h : ∀ i, i < n → 0 ≤ a i * b i) :
    0 ≤ ∑ i ∈ range n, a i * b i :=
  Finset.sum_nonneg (fun i hi => h i (Finset.mem_range.mp hi))

/-- finite Fubini: summing all entries by rows or by columns -/
theorem sum_fubini (r c : ℕ) (a : ℕ → ℕ → ℝ) :
    ∑ i ∈ range r, ∑ j ∈ range c, a i j = ∑ j ∈ range c, ∑ i ∈ range r, a i j :=
  Finset.sum_comm

/-- L-MAX: a non-empty finite family attains its maximum -/
theorem max_attained (n : ℕ) (a : ℕ → ℝ) (hn : 1 ≤ n) :
    ∃ j, j < n ∧ ∀ i, i < n → a i ≤ a j := by
  obtain ⟨j, hj, hmax⟩ := Finset.exists_max_image (range n) a ⟨0, Finset.mem_range.mpr hn⟩
  exact ⟨j, Finset.mem_range.mp hj, fun i hi => hmax i (Finset.mem_range.mpr hi)⟩

/-- Gram form: C = Σ_i r_i d_i d_iᵀ / S with r_i ≥ 0, S > 0 is positive semi-definite -/
theorem gram_psd (n d : ℕ) (r : ℕ → ℝ) (x : ℕ → ℕ → ℝ) (S : ℝ) (v : ℕ → ℝ) (hS : 0 < S)
    (hr : ∀ i, i < n → 0 ≤ r i) :
    0 ≤ ∑ a ∈ range d, ∑ b ∈ range d, v a * ((∑ i ∈ range n, r i * x i a * x i b) / S) * v b := by
  have e1 : ∀ a b, v a * ((∑ i ∈ range n, r i * x i a * x i b) / S) * v b
      = ∑ i ∈ range n, r i * (v a * x i a) * (v b * x i b) / S := by
    intro a b
    rw [Finset.sum_div, Finset.mul_sum, Finset.sum_mul]
    apply Finset.sum_congr rfl
    intro i _
    ring
  have e2 : ∀ i, r i * (∑ a ∈ range d, v a * x i a) ^ 2 / S
      = ∑ a ∈ range d, ∑ b ∈ range d, r i * (v a * x i a) * (v b * x i b) / S := by
    intro i
    rw [pow_two, Finset.sum_mul_sum, Finset.mul_sum, Finset.sum_div]
    apply Finset.sum_congr rfl
    intro a _
    rw [Finset.mul_sum, Finset.sum_div]
    apply Finset.sum_congr rfl
    intro b _
    ring
  have key : ∑ a ∈ range d, ∑ b ∈ range d, v a * ((∑ i ∈ range n, r i * x i a * x i b) / S) * v b
      = ∑ i ∈ range n, r i * (∑ a ∈ range d, v a * x i a) ^ 2 / S := by
    calc ∑ a ∈ range d, ∑ b ∈ range d, v a * ((∑ i ∈ range n, r i * x i a * x i b) / S) * v b
        = ∑ a ∈ range d, ∑ b ∈ range d, ∑ i ∈ range n, r i * (v a * x i a) * (v b * x i b) / S := by
          apply Finset.sum_congr rfl; intro a _
          apply Finset.sum_congr rfl; intro b _
          exact e1 a b
      _ = ∑ a ∈ range d, ∑ i ∈ range n, ∑ b ∈ range d, r i * (v a * x i a) * (v b * x i b) / S := by
          apply Finset.sum_congr rfl; intro a _
          exact Finset.sum_comm
      _ = ∑ i ∈ range n, ∑ a ∈ range d, ∑ b ∈ range d, r i * (v a * x i a) * (v b * x i b) / S :=
          Finset.sum_comm
      _ = ∑ i ∈ range n, r i * (∑ a ∈ range d, v a * x i a) ^ 2 / S := by
          apply Finset.sum_congr rfl; intro i _
          exact (e2 i).symm
  rw [key]
  apply Finset.sum_nonneg
  intro i hi
  exact div_nonneg (mul_nonneg (hr i (Finset.mem_range.mp hi)) (sq_nonneg _)) hS.le
