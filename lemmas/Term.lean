import Mathlib

/-! Termination lemmas behind the loop variants checked by the VC generator. -/

/-- A gap that is at least halved on every pass cannot stay above a positive tolerance for ever. -/
theorem halving_terminates (g : ℕ → ℝ) (tol : ℝ) (htol : 0 < tol)
    (h : ∀ k, g (k + 1) ≤ g k / 2) : ∃ k, g k < tol := by
  have bound : ∀ k, g k ≤ g 0 * (1 / 2 : ℝ) ^ k := by
    intro k
    induction k with
    | zero => simp
    | succ n ih =>
      calc g (n + 1) ≤ g n / 2 := h n
        _ ≤ (g 0 * (1 / 2 : ℝ) ^ n) / 2 := by linarith
        _ = g 0 * (1 / 2 : ℝ) ^ (n + 1) := by rw [pow_succ]; ring
  by_cases h0 : g 0 ≤ 0
  · exact ⟨0, lt_of_le_of_lt h0 htol⟩
  · have h0 : 0 < g 0 := lt_of_not_ge h0
    obtain ⟨n, hn⟩ := exists_pow_lt_of_lt_one (div_pos htol h0) (by norm_num : (1 / 2 : ℝ) < 1)
    refine ⟨n, lt_of_le_of_lt (bound n) ?_⟩
    have := mul_lt_mul_of_pos_left hn h0
    rwa [mul_div_cancel₀ _ (ne_of_gt h0)] at this

/-- An integer variant that is non-negative whenever the body runs and decreases by at least one per pass
allows at most `v 0 + 1` passes: there is a pass index at which the loop has stopped (variant would be negative). -/
theorem int_variant_terminates (v : ℕ → ℤ) (h : ∀ k, v (k + 1) ≤ v k - 1) : ∃ k, v k < 0 := by
  have bound : ∀ k : ℕ, v k ≤ v 0 - k := by
    intro k
    induction k with
    | zero => simp
    | succ n ih =>
      have := h n
      push_cast
      linarith
  refine ⟨(v 0).toNat + 1, ?_⟩
  have := bound ((v 0).toNat + 1)
  have h2 : (v 0) ≤ ((v 0).toNat : ℤ) := Int.self_le_toNat (v 0)
  push_cast at this
  linarith
