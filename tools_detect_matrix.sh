#!/bin/bash
# usage: tools_detect_matrix.sh [ids...]  — run each seeded change against the check of its own property (scratch copy of /repo),
# record the verdict in seeded/<id>/detected.txt
# SEED_BASE=/verif/seeded_harmless runs the property-preserving changes instead (expected: exit 0, no VIOLATION line)
cd /verif
export SEED_BASE=${SEED_BASE:-/verif/seeded}
ids=${@:-$(ls $SEED_BASE)}
run() {
  id=$1; prop=${id%%_*}
  out=$(VERIF_EVIDENCE_DIR=/tmp/pyvc_ev_$id VERIF_REPLAY_DIR=/tmp/pyvc_ev_$id/replay ./audit_one $SEED_BASE/$id/patch.diff $prop quick 2>&1 | grep -v conda)
  rc=$(echo "$out" | grep -c "^VIOLATION")
  echo "$out" | grep -E "^VIOLATION|^$prop:|unknown|error" | head -6 > $SEED_BASE/$id/detected.txt
  echo "$id violations=$rc $(echo "$out" | grep "^$prop:" | tail -1)"
  rm -rf /tmp/pyvc_ev_$id
}
export -f run
echo $ids | tr ' ' '\n' | xargs -P 6 -I{} bash -c 'run {}'
