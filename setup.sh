#!/bin/bash
# Offline setup: check the solver stack and compile the Lean/Mathlib lemma files once
# (cold `import Mathlib` is ~3 min per file; files are compiled in parallel and cached by content hash).
set -e
cd "$(dirname "$0")"
mkdir -p evidence replay .cache/lean
/opt/veriftools/pyvenv/bin/python -c "import z3; print('z3', z3.get_version_string())"
/opt/veriftools/pyvenv/bin/python - <<'PY'
import sys, os, concurrent.futures as cf
sys.path.insert(0, os.getcwd())
from contracts import lean
files = sorted(f for f in os.listdir("lemmas") if f.endswith(".lean"))
with cf.ThreadPoolExecutor(max_workers=8) as ex:
    for f, r in zip(files, ex.map(lean.compile_file, files)):
        print("lean", f, r[0], r[1][:200])
PY
