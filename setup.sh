#!/bin/bash
# Offline setup: nothing to build for the quick tier (python3-vt with z3/cvc5 is pre-installed).
set -e
cd "$(dirname "$0")"
mkdir -p evidence replay
/opt/veriftools/pyvenv/bin/python -c "import z3; print('z3', z3.get_version_string())"
