#!/bin/bash
# usage: tools_update_fingerprints.sh — record the statement-structure fingerprints of every function under contract on the CURRENT
# /repo tree into fingerprints.json (run after /repo HEAD changed, i.e. after a `fix:` commit; never run by a registered command).
cd /verif; rm -f fingerprints.json
for p in C03 C04 C05 C06 C07 C08 C09 C10 C11 C12 C13 C14 C15 C16 C17 C18 C19 C20; do VERIF_RECORD_FP=1 VERIF_NATIVE=0 VERIF_SERIAL=1 VERIF_EVIDENCE_DIR=/tmp/fp_ev VERIF_REPLAY_DIR=/tmp/fp_ev/r ./check $p > /dev/null 2>&1; done
rm -rf /tmp/fp_ev; python3 -c "import json;print(len(json.load(open('/verif/fingerprints.json'))),'functions fingerprinted')"
